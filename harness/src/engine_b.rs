//! Engine B — real generated Rust through rustc.
//!
//! A batch of (grammar, configuration) cases is generated from the seeded proptest runner, each
//! compiled by the real `Settings::process_grammar` into `src/<module>/{g.rs,g_actions.rs}` of a
//! scratch crate (under ${VERIF_SCRATCH:-/var/tmp}, removed at the end; the cargo target dir is
//! kept under /verif/target so that the runtime crate is compiled once), the harness adds a
//! driver module per case and one `main.rs`; one `cargo build|check --message-format=json`;
//! rustc diagnostics are attributed to cases by file path.

use crate::compile::{guarded, panic_sig};
use crate::props::c16::scratch_root;
use rustemo_compiler::{BuilderType, GeneratorTableType, LexerType, ParserAlgo, Settings};
use serde::{Deserialize, Serialize};
use std::collections::BTreeMap;
use std::path::{Path, PathBuf};
use std::process::Command;

#[derive(Clone, Copy, Debug, PartialEq, Eq, Hash, Serialize, Deserialize)]
pub struct BConfig {
    pub glr: bool,
    /// 0 default, 1 generic, 2 custom
    pub builder: u8,
    pub arrays: bool,
    pub loc_info: bool,
    pub fancy: bool,
    pub custom_lexer: bool,
    /// LR parser over the right-nulled table (`table_type(LALR_RN)`): the builder then really
    /// executes right-nulled (shortened) reductions
    #[serde(default)]
    pub rn_table: bool,
    /// `Settings::skip_ws(false)`: the generated lexer must not skip whitespace
    #[serde(default)]
    pub no_skip_ws: bool,
}

impl BConfig {
    pub fn settings(&self) -> Settings {
        let mut s = Settings::new();
        if self.glr {
            s = s.parser_algo(ParserAlgo::GLR);
        } else if self.rn_table {
            s = s.table_type(rustemo_compiler::TableType::LALR_RN);
        }
        if self.no_skip_ws {
            s = s.skip_ws(false);
        }
        s.builder_type(match self.builder {
            0 => BuilderType::Default,
            1 => BuilderType::Generic,
            _ => BuilderType::Custom,
        })
        .generator_table_type(if self.arrays { GeneratorTableType::Arrays } else { GeneratorTableType::Functions })
        .builder_loc_info(self.loc_info)
        .fancy_regex(self.fancy)
        .lexer_type(if self.custom_lexer { LexerType::Custom } else { LexerType::Default })
        .force(true)
    }
    pub fn name(&self) -> String {
        format!(
            "{}|{}|{}|loc={}|fancy={}|lexer={}",
            if self.glr { "GLR" } else if self.rn_table { "LR(LALR_RN)" } else { "LR" },
            ["default", "generic", "custom"][self.builder.min(2) as usize],
            if self.arrays { "arrays" } else { "functions" },
            self.loc_info as u8,
            self.fancy as u8,
            if self.custom_lexer { "custom" } else { "default" }
        )
    }
}

pub struct Scratch {
    pub dir: PathBuf,
    pub modules: Vec<String>,
}

#[derive(Debug, Clone)]
pub struct Diag {
    pub code: String,
    pub message: String,
    pub file: String,
    pub line: usize,
    pub text: String,
    /// label of the primary span (e.g. "expected `Vec<..>`, found `Option<_>`")
    pub label: String,
}

pub enum GenResult {
    Ok,
    Rejected(String),
    Panic(String, String),
}

impl Scratch {
    pub fn new(tag: &str) -> Scratch {
        let dir = scratch_root().join(format!("verif-b-{}-{}", std::process::id(), tag));
        let _ = std::fs::remove_dir_all(&dir);
        std::fs::create_dir_all(dir.join("src")).expect("scratch crate");
        std::fs::create_dir_all(dir.join(".cargo")).expect("scratch crate");
        std::fs::write(
            dir.join("Cargo.toml"),
            "[package]\nname = \"vscratch\"\nversion = \"0.0.0\"\nedition = \"2021\"\n\n[workspace]\n\n[dependencies]\nrustemo = { path = \"/repo/rustemo\" }\n\n[profile.dev]\nopt-level = 0\ndebug = 0\nincremental = false\n",
        )
        .unwrap();
        std::fs::write(dir.join(".cargo/config.toml"), "[net]\noffline = true\n").unwrap();
        let _ = std::fs::copy("/repo/Cargo.lock", dir.join("Cargo.lock"));
        Scratch { dir, modules: vec![] }
    }

    pub fn module_dir(&self, m: &str) -> PathBuf {
        self.dir.join("src").join(m)
    }

    /// Generate the parser (and actions) for one case into its module directory.
    pub fn generate(&mut self, m: &str, text: &str, cfg: &BConfig) -> GenResult {
        let d = self.module_dir(m);
        let _ = std::fs::remove_dir_all(&d);
        std::fs::create_dir_all(&d).unwrap();
        let g = d.join("g.rustemo");
        std::fs::write(&g, text).unwrap();
        let s = cfg.settings();
        match guarded(|| s.process_grammar(&g)) {
            Ok(Ok(())) => {
                if cfg.custom_lexer {
                    // the one file a user of a custom lexer must provide
                    std::fs::write(d.join("g_lexer.rs"), "pub type Input = str;\n").unwrap();
                }
                self.modules.push(m.to_string());
                GenResult::Ok
            }
            Ok(Err(e)) => {
                let _ = std::fs::remove_dir_all(&d);
                GenResult::Rejected(format!("{e}"))
            }
            Err(p) => {
                let _ = std::fs::remove_dir_all(&d);
                GenResult::Panic(panic_sig(&p), format!("{}:{} {}", p.file, p.line, p.message))
            }
        }
    }

    /// `mod.rs` of a case: the generated files plus an optional harness-written driver.
    pub fn write_mod(&self, m: &str, cfg: &BConfig, driver: Option<&str>) {
        let d = self.module_dir(m);
        let mut s = String::from("#![allow(warnings)]\npub mod g;\n");
        if cfg.builder == 0 {
            s.push_str("pub mod g_actions;\n");
        }
        if cfg.custom_lexer {
            s.push_str("pub mod g_lexer;\n");
        }
        if let Some(drv) = driver {
            std::fs::write(d.join("cmp.rs"), drv).unwrap();
            s.push_str("pub mod cmp;\n");
        }
        std::fs::write(d.join("mod.rs"), s).unwrap();
    }

    pub fn remove_module(&mut self, m: &str) {
        let _ = std::fs::remove_dir_all(self.module_dir(m));
        self.modules.retain(|x| x != m);
    }

    pub fn write_main(&self, with_run: bool) {
        let mut s = String::from("#![allow(warnings)]\n");
        for m in &self.modules {
            s.push_str(&format!("mod {m};\n"));
        }
        s.push_str("fn main() {\n");
        if with_run {
            for m in &self.modules {
                s.push_str(&format!(
                    "    println!(\"@@BEGIN {m}\");\n    match std::panic::catch_unwind(|| {m}::cmp::run()) {{ Ok(o) => println!(\"{{}}\", o), Err(_) => println!(\"@@PANIC\") }}\n    println!(\"@@END {m}\");\n"
                ));
            }
        }
        s.push_str("}\n");
        std::fs::write(self.dir.join("src/main.rs"), s).unwrap();
    }

    fn cargo(&self, sub: &str) -> Result<(bool, Vec<Diag>), String> {
        let target = crate::runner::verif_root().join("target").join("scratch-b");
        let out = Command::new("cargo")
            .arg(sub)
            .arg("--offline")
            .arg("--message-format=json")
            .current_dir(&self.dir)
            .env("CARGO_TARGET_DIR", &target)
            .env("CARGO_NET_OFFLINE", "true")
            .env_remove("RUSTFLAGS")
            .output()
            .map_err(|e| format!("cannot run cargo: {e}"))?;
        let mut diags = vec![];
        for line in String::from_utf8_lossy(&out.stdout).lines() {
            let v: serde_json::Value = match serde_json::from_str(line) {
                Ok(v) => v,
                Err(_) => continue,
            };
            if v["reason"] != "compiler-message" {
                continue;
            }
            let msg = &v["message"];
            if msg["level"] != "error" {
                continue;
            }
            let span = msg["spans"].as_array().and_then(|a| a.iter().find(|s| s["is_primary"] == true).or(a.first()));
            let label = span.and_then(|s| s["label"].as_str()).unwrap_or("").to_string();
            let (file, line_no, text) = match span {
                Some(s) => (
                    s["file_name"].as_str().unwrap_or("").to_string(),
                    s["line_start"].as_u64().unwrap_or(0) as usize,
                    s["text"].as_array().and_then(|t| t.first()).and_then(|t| t["text"].as_str()).unwrap_or("").trim().to_string(),
                ),
                None => (String::new(), 0, String::new()),
            };
            diags.push(Diag {
                code: msg["code"]["code"].as_str().unwrap_or("").to_string(),
                message: msg["message"].as_str().unwrap_or("").to_string(),
                file,
                line: line_no,
                text,
                label,
            });
        }
        if !out.status.success() && diags.is_empty() {
            return Err(format!("cargo {sub} failed without diagnostics: {}", String::from_utf8_lossy(&out.stderr).chars().take(2000).collect::<String>()));
        }
        Ok((out.status.success(), diags))
    }

    /// cargo check; diagnostics grouped by module
    pub fn check(&self) -> Result<BTreeMap<String, Vec<Diag>>, String> {
        self.write_main(false);
        let (_, diags) = self.cargo("check")?;
        self.group(diags)
    }

    fn group(&self, diags: Vec<Diag>) -> Result<BTreeMap<String, Vec<Diag>>, String> {
        let mut m: BTreeMap<String, Vec<Diag>> = BTreeMap::new();
        for d in diags {
            let module = d.file.strip_prefix("src/").and_then(|r| r.split('/').next()).map(|s| s.to_string());
            match module {
                Some(md) if self.modules.contains(&md) => m.entry(md).or_default().push(d),
                _ => {
                    if d.message.starts_with("aborting due to") || d.message.starts_with("could not compile") {
                        continue;
                    }
                    return Err(format!("diagnostic not attributable to a case: {} ({}:{})", d.message, d.file, d.line));
                }
            }
        }
        Ok(m)
    }

    /// Build (dropping modules that do not compile: returned as diagnostics) and run.
    /// Returns (diagnostics per dropped module, output block per module).
    pub fn build_and_run(&mut self) -> Result<(BTreeMap<String, Vec<Diag>>, BTreeMap<String, String>), String> {
        let mut dropped: BTreeMap<String, Vec<Diag>> = BTreeMap::new();
        for _round in 0..4 {
            self.write_main(true);
            let (ok, diags) = self.cargo("build")?;
            if ok {
                break;
            }
            let g = self.group(diags)?;
            if g.is_empty() {
                return Err("build failed without attributable diagnostics".into());
            }
            for (m, d) in g {
                self.remove_module(&m);
                dropped.insert(m, d);
            }
        }
        let target = crate::runner::verif_root().join("target").join("scratch-b");
        let bin = target.join("debug").join("vscratch");
        // run with a wall-clock limit: a generated parser has no step budget, and a time budget
        // hit means "inconclusive", never a violation
        let limit: u64 = std::env::var("VERIF_SCRATCH_RUN_LIMIT_S").ok().and_then(|s| s.parse().ok()).unwrap_or(600);
        let outp = self.dir.join("stdout.txt");
        let outf = std::fs::File::create(&outp).map_err(|e| format!("cannot create {outp:?}: {e}"))?;
        let mut child = Command::new(&bin)
            .current_dir(&self.dir)
            .env_remove("RUSTEMO_TRACE")
            .stdout(outf)
            .stderr(std::process::Stdio::null())
            .spawn()
            .map_err(|e| format!("cannot run scratch binary: {e}"))?;
        let t0 = std::time::Instant::now();
        loop {
            match child.try_wait() {
                Ok(Some(_)) => break,
                Ok(None) => {
                    if t0.elapsed().as_secs() > limit {
                        let _ = child.kill();
                        let _ = child.wait();
                        return Err(format!("scratch binary exceeded the wall-clock limit of {limit}s"));
                    }
                    std::thread::sleep(std::time::Duration::from_millis(50));
                }
                Err(e) => return Err(format!("cannot wait for the scratch binary: {e}")),
            }
        }
        let text = std::fs::read_to_string(&outp).map(|s| s).unwrap_or_else(|_| String::from_utf8_lossy(&std::fs::read(&outp).unwrap_or_default()).to_string());
        let mut blocks: BTreeMap<String, String> = BTreeMap::new();
        let mut cur: Option<(String, String)> = None;
        for line in text.lines() {
            if let Some(m) = line.strip_prefix("@@BEGIN ") {
                cur = Some((m.to_string(), String::new()));
            } else if line.starts_with("@@END ") {
                if let Some((m, b)) = cur.take() {
                    blocks.insert(m, b);
                }
            } else if let Some((_, b)) = cur.as_mut() {
                b.push_str(line);
                b.push('\n');
            }
        }
        Ok((dropped, blocks))
    }

    pub fn cleanup(&self) {
        let _ = std::fs::remove_dir_all(&self.dir);
    }
}

impl Drop for Scratch {
    fn drop(&mut self) {
        self.cleanup();
    }
}

/// Variant names of an enum in a generated file (parsed with syn).
pub fn enum_variants(file: &Path, name: &str) -> Vec<String> {
    let text = std::fs::read_to_string(file).unwrap_or_default();
    let f = match syn::parse_file(&text) {
        Ok(f) => f,
        Err(_) => return vec![],
    };
    for i in f.items {
        if let syn::Item::Enum(e) = i {
            if e.ident == name {
                return e.variants.iter().map(|v| v.ident.to_string()).collect();
            }
        }
    }
    vec![]
}
