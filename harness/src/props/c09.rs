//! C09 — the grammar the compiler analyses is the grammar the user wrote.
//! Reference desugaring + bounded (exhaustive) language equivalence + structural comparison.

use super::common::*;
use crate::compile::{Cfg, TT};
use crate::gen::{self, eff_meta};
use crate::oracle::desugar::{all_strings, desugar, HelperKey};
use crate::oracle::earley::Earley;
use crate::runner::{Outcome, Prop, Stats, Tier};
use crate::spec::*;
use proptest::prelude::*;
use rustemo_compiler::verif::Dump;
use serde_json::{json, Value};
use std::collections::BTreeSet;

pub struct C09;

fn dump_bnf(d: &Dump) -> Bnf {
    let nterms = d.terminals.len();
    let mut nts: Vec<NtDef> =
        d.nonterminals.iter().map(|n| NtDef { name: n.name.clone(), alts: vec![] }).collect();
    for n in 0..d.nonterminals.len() {
        for p in &d.nonterminals[n].productions {
            let rhs = d.productions[*p]
                .rhs
                .iter()
                .map(|s| if *s < nterms { Sym::T(*s) } else { Sym::N(*s - nterms) })
                .collect();
            nts[n].alts.push(rhs);
        }
    }
    Bnf { nterms, term_names: d.terminals.iter().map(|t| t.name.clone()).collect(), nts, start: 0 }
}

/// language of nonterminal `start` restricted to the given strings
fn lang(b: &Bnf, start: usize, strings: &[Vec<usize>]) -> Vec<bool> {
    let mut g = b.clone();
    g.start = start;
    let e = Earley::new(&g);
    strings.iter().map(|w| e.accepts(w)).collect()
}

fn fmt_word(d: &Dump, w: &[usize]) -> String {
    w.iter().map(|t| d.terminals[*t].name.clone()).collect::<Vec<_>>().join(" ")
}

impl Prop for C09 {
    type Case = GrammarSpec;
    fn id(&self) -> &'static str {
        "C09"
    }
    fn strategy(&self, tier: Tier) -> BoxedStrategy<GrammarSpec> {
        let nts = match tier {
            Tier::Quick => 4,
            Tier::Thorough => 6,
        };
        gen::g_lang(gen::LangParams { max_nts: nts, max_terms: 4, ..gen::LangParams::full() }).boxed()
    }
    fn cases(&self, tier: Tier) -> u32 {
        match tier {
            Tier::Quick => 5000,
            Tier::Thorough => 100_000,
        }
    }
    fn rule(&self) -> String {
        "case = generated semantically valid grammar text over the implemented syntax (alternatives, \
         EMPTY, named and ?= assignments, inline strings in both quote styles, ? * + with and without \
         [separator], meta-data on rules / productions / terminals incl. rule-level and \
         production-level data combined, production kinds, user meta-data). From the real grammar \
         dump: start symbol is the first rule; every user rule has exactly the spec's alternatives \
         in order, symbol for symbol (EMPTY contributes nothing, an inline string is the terminal \
         declared with it, assignment names and ?= flags kept); priority / associativity / nops / \
         nopse / kind / user keys of each production equal the reference inheritance (production's \
         own datum wins); sugar is compared by language: the nonterminal at a sugared position and \
         the whole grammar must generate, over all token strings up to length 4 resp. 5 \
         (exhaustive), exactly the language of the documented expansion; number of nonterminals = \
         user rules + distinct helper uses + EMPTY + AUG; terminals keep order, priority and \
         associativity. non-trivial = text with a sugar use with separator or a rule-level datum \
         overridden at production level"
            .into()
    }
    fn assumptions(&self) -> Vec<String> {
        vec![
            "<= 4 terminals so that the bounded language comparison is exhaustive (4^0+..+4^5 = 1365 strings)".into(),
            "helper names and index allocation are not compared, only languages, production lists and meta-data".into(),
        ]
    }
    fn describe(&self, case: &GrammarSpec) -> Value {
        json!({"grammar": case.render()})
    }
    fn check(&self, spec: &GrammarSpec, st: &mut Stats) -> Outcome {
        let text = spec.render();
        // a user rule named like the helper rule of a repetition used in the grammar: the helper
        // "shared by all identical uses" cannot be the user's rule, so the text must be refused
        let helpers = spec.helper_names();
        let collision = spec.rules.iter().find(|r| helpers.contains(&r.name)).map(|r| r.name.clone());
        let d = match compile_or_discard(&text, &Cfg::raw(TT::Pager), st) {
            Ok(d) => {
                if let Some(name) = &collision {
                    return Outcome::fail(
                        "sugar|user-rule-taken-for-repetition-helper",
                        format!("grammar:\n{text}\nthe user rule '{name}' has the name of the helper rule of a repetition used in this grammar, yet the grammar was accepted (the repetition then denotes the user's rule, not its documented expansion)"),
                    );
                }
                d
            }
            Err(Some(e)) if collision.is_some() && e.contains("collides with the rule created for a repetition") => {
                st.class("helper-name-collision-refused");
                return Outcome::Pass;
            }
            Err(Some(e)) => {
                let c = crate::props::c16::classify_err(&e);
                if c == "err-recursion" {
                    st.discard("compiler-rejects:recursion");
                    return Outcome::Pass;
                }
                return Outcome::fail(
                    format!("valid-text-rejected|{c}"),
                    format!("grammar:\n{text}\nerror: {e}"),
                );
            }
            Err(None) => return Outcome::Pass,
        };
        st.sub();
        let ctx = |m: String| format!("grammar:\n{text}\n{m}");
        let nterms = d.terminals.len();
        // terminals: order, priority, associativity
        if nterms != spec.terms.len() + 1 {
            return Outcome::fail("terminals|count", ctx(format!("{} vs {}", nterms - 1, spec.terms.len())));
        }
        for (i, t) in spec.terms.iter().enumerate() {
            let dt = &d.terminals[i + 1];
            if dt.name != t.name {
                return Outcome::fail("terminals|order", ctx(format!("terminal {} is {} expected {}", i + 1, dt.name, t.name)));
            }
            if dt.prio != t.prio.unwrap_or(10) {
                return Outcome::fail("terminals|priority", ctx(format!("{}: {} expected {:?}", t.name, dt.prio, t.prio)));
            }
            if dt.assoc != t.assoc.datum() {
                return Outcome::fail("terminals|associativity", ctx(format!("{}: {} expected {:?}", t.name, dt.assoc, t.assoc)));
            }
        }
        // start symbol
        let start_nt = d.start_index.checked_sub(nterms);
        if start_nt.map(|n| d.nonterminals[n].name.as_str()) != Some(spec.rules[0].name.as_str()) {
            return Outcome::fail("start-symbol", ctx(format!("start index {}", d.start_index)));
        }
        let ds = desugar(spec);
        let dbnf = dump_bnf(&d);
        let alphabet: Vec<usize> = (1..nterms).collect();
        let words4 = all_strings(&alphabet, 4);
        let words5 = all_strings(&alphabet, 5);
        // reference words use spec terminal indexes (dump index - 1)
        let conv = |ws: &Vec<Vec<usize>>| -> Vec<Vec<usize>> { ws.iter().map(|w| w.iter().map(|t| t - 1).collect()).collect() };
        let rwords4 = conv(&words4);
        let rwords5 = conv(&words5);
        let mut helper_checked: BTreeSet<(usize, usize)> = BTreeSet::new();
        let mut override_seen = false;
        let mut sep_sugar = false;
        // classes for signatures
        let mut sep_variants = false;
        {
            let keys: Vec<&HelperKey> = ds.helpers.keys().collect();
            for a in &keys {
                for b in &keys {
                    match (a, b) {
                        (HelperKey::Plus(x, s1), HelperKey::Plus(y, s2)) if x == y && s1 != s2 => sep_variants = true,
                        _ => {}
                    }
                }
            }
        }
        for (ri, r) in spec.rules.iter().enumerate() {
            let dn = match d.nonterminals.iter().position(|n| n.name == r.name) {
                Some(n) => n,
                None => return Outcome::fail("rule-missing", ctx(r.name.clone())),
            };
            let prods = &d.nonterminals[dn].productions;
            if prods.len() != r.alts.len() {
                return Outcome::fail(
                    "productions|count",
                    ctx(format!("rule {}: {} productions for {} alternatives", r.name, prods.len(), r.alts.len())),
                );
            }
            for (ai, a) in r.alts.iter().enumerate() {
                let dp = &d.productions[prods[ai]];
                if dp.ntidx != ai {
                    return Outcome::fail("productions|ntidx", ctx(format!("{}#{ai} has ntidx {}", r.name, dp.ntidx)));
                }
                if dp.rhs.len() != a.syms.len() {
                    return Outcome::fail(
                        "productions|length",
                        ctx(format!("{}#{ai}: rhs length {} expected {}", r.name, dp.rhs.len(), a.syms.len())),
                    );
                }
                for (pi, u) in a.syms.iter().enumerate() {
                    let got = dp.rhs[pi];
                    match &u.rep {
                        None => {
                            let want_name = spec.sym_name(u.sym);
                            let got_name = if got < nterms { &d.terminals[got].name } else { &d.nonterminals[got - nterms].name };
                            if got_name != want_name {
                                let cls = if u.inline { "inline-string" } else { "symbol" };
                                return Outcome::fail(
                                    format!("productions|{cls}"),
                                    ctx(format!("{}#{ai} position {pi}: {got_name} expected {want_name}", r.name)),
                                );
                            }
                        }
                        Some((op, sep)) => {
                            if sep.is_some() {
                                sep_sugar = true;
                            }
                            if got < nterms {
                                return Outcome::fail("sugar|not-a-nonterminal", ctx(format!("{}#{ai} position {pi}", r.name)));
                            }
                            let rsym = ds.at[&(ri, ai, pi)];
                            let rn = match rsym {
                                Sym::N(n) => n,
                                _ => unreachable!(),
                            };
                            if helper_checked.insert((got - nterms, rn)) {
                                let l1 = lang(&dbnf, got - nterms, &words4);
                                let l2 = lang(&ds.bnf, rn, &rwords4);
                                if let Some(k) = (0..l1.len()).find(|k| l1[*k] != l2[*k]) {
                                    let opn = match op {
                                        RepOp::Opt => "optional",
                                        RepOp::Star => "zero-or-more",
                                        RepOp::Plus => "one-or-more",
                                    };
                                    return Outcome::fail(
                                        if sep_variants {
                                            "sugar|same-base-different-separators".to_string()
                                        } else {
                                            format!(
                                                "sugar-language|{opn}|{}",
                                                if sep.is_some() { "with-separator" } else { "no-separator" }
                                            )
                                        },
                                        ctx(format!(
                                            "{}#{ai} position {pi} ({}): the helper {} {} the string [{}] but the documented expansion {}",
                                            r.name,
                                            spec.render_alt(a),
                                            d.nonterminals[got - nterms].name,
                                            if l1[k] { "generates" } else { "does not generate" },
                                            fmt_word(&d, &words4[k]),
                                            if l2[k] { "does" } else { "does not" }
                                        )),
                                    );
                                }
                            }
                        }
                    }
                    // assignment names and bool flags
                    let want_name = u.assign.as_ref().map(|x| x.0.clone());
                    if dp.rhs_names[pi] != want_name {
                        return Outcome::fail(
                            "productions|assignment-name",
                            ctx(format!("{}#{ai} position {pi}: {:?} expected {:?}", r.name, dp.rhs_names[pi], want_name)),
                        );
                    }
                    let want_bool = u.assign.as_ref().map(|x| x.1).unwrap_or(false);
                    if dp.rhs_bool[pi] != want_bool {
                        return Outcome::fail("productions|bool-assignment", ctx(format!("{}#{ai} position {pi}", r.name)));
                    }
                }
                // meta-data inheritance
                let em = eff_meta(r, a);
                if dp.prio != em.prio {
                    return Outcome::fail("meta|priority", ctx(format!("{}#{ai}: {} expected {}", r.name, dp.prio, em.prio)));
                }
                if dp.assoc != em.assoc {
                    let cls = match (r.meta.assoc.map(|k| k.datum()), a.meta.assoc.map(|k| k.datum())) {
                        (Some(x), Some(y)) if x != y => "rule-and-production-differ",
                        (Some(_), None) => "inherited",
                        _ => "own",
                    };
                    return Outcome::fail(
                        format!("meta|associativity|{cls}"),
                        ctx(format!(
                            "{}#{ai}: associativity {} expected {} (rule {:?}, production {:?}; 0 none 1 left/reduce 2 right/shift)",
                            r.name, dp.assoc, em.assoc, r.meta.assoc, a.meta.assoc
                        )),
                    );
                }
                if dp.nops != em.nops || dp.nopse != em.nopse {
                    return Outcome::fail("meta|nops-nopse", ctx(format!("{}#{ai}", r.name)));
                }
                if dp.kind != a.meta.kind.clone().or(r.meta.kind.clone()) {
                    return Outcome::fail("meta|kind", ctx(format!("{}#{ai}: {:?}", r.name, dp.kind)));
                }
                // user keys: production's own wins
                let mut want_user: Vec<(String, String)> = vec![];
                for (k, v) in r.meta.user.iter().chain(a.meta.user.iter()) {
                    let vs = match v {
                        UserVal::Int(i) => format!("int:{i}"),
                        UserVal::Bool(b) => format!("bool:{b}"),
                        UserVal::Str(s) => format!("str:{s}"),
                        UserVal::Float(f) => format!("float:{}", f.parse::<f32>().unwrap_or(0.0)),
                    };
                    want_user.retain(|(k2, _)| k2 != k);
                    want_user.push((k.clone(), vs));
                }
                want_user.sort();
                let mut got_user: Vec<(String, String)> =
                    dp.meta.iter().filter(|(k, _)| k != "dynamic").cloned().collect();
                got_user.sort();
                if got_user != want_user {
                    return Outcome::fail("meta|user-keys", ctx(format!("{}#{ai}: {:?} expected {:?}", r.name, got_user, want_user)));
                }
                if (a.meta.prio.is_some() && r.meta.prio.is_some())
                    || (a.meta.assoc.is_some() && r.meta.assoc.is_some())
                    || a.meta.user.iter().any(|(k, _)| r.meta.user.iter().any(|(k2, _)| k == k2))
                {
                    override_seen = true;
                }
            }
        }
        // one helper per identical use
        let want_nts = spec.rules.len() + ds.helpers.len() + 2;
        if d.nonterminals.len() != want_nts {
            return Outcome::fail(
                if sep_variants {
                    "sugar|same-base-different-separators".to_string()
                } else {
                    format!("helper-count|{}", if d.nonterminals.len() < want_nts { "fewer" } else { "more" })
                },
                ctx(format!(
                    "{} nonterminals, expected {} = {} rules + {} distinct sugar helpers + EMPTY + AUG",
                    d.nonterminals.len(), want_nts, spec.rules.len(), ds.helpers.len()
                )),
            );
        }
        // whole language
        let l1 = lang(&dbnf, d.start_index - nterms, &words5);
        let l2 = lang(&ds.bnf, 0, &rwords5);
        if let Some(k) = (0..l1.len()).find(|k| l1[*k] != l2[*k]) {
            return Outcome::fail(
                "language|whole-grammar",
                ctx(format!(
                    "[{}] is {} by the analysed grammar but {} by the written one",
                    fmt_word(&d, &words5[k]),
                    if l1[k] { "generated" } else { "not generated" },
                    if l2[k] { "generated" } else { "not generated" }
                )),
            );
        }
        if sep_sugar {
            st.class("sugar-with-separator");
        }
        if override_seen {
            st.class("rule-datum-overridden-by-production");
        }
        if sep_variants {
            st.class("same-base-different-separators");
        }
        if spec.has_sugar() {
            st.class("has-sugar");
        }
        if sep_sugar || override_seen {
            st.nontrivial(&text, || json!({"grammar": text, "nonterminals": d.nonterminals.len(), "productions": d.productions.len()}));
        }
        Outcome::Pass
    }
}
