//! C17 — parser generation is deterministic and the same through CLI and API.
//! Metamorphic over fresh processes (hash seeds), processing orders and interfaces.

use crate::compile::{guarded, panic_sig};
use crate::gen::{self, pick};
use crate::props::c16::thread_dir;
use crate::runner::{Outcome, Prop, Stats, Tier};
use proptest::prelude::*;
use rustemo_compiler::{BuilderType, GeneratorTableType, LexerType, ParserAlgo, Settings, TableType};
use serde::{Deserialize, Serialize};
use serde_json::{json, Value};
use std::path::{Path, PathBuf};
use std::process::Command;

pub struct C17;

#[derive(Clone, Debug, Serialize, Deserialize)]
pub struct Case {
    pub tape_a: Vec<u16>,
    pub tape_b: Vec<u16>,
    pub flags: Vec<u16>,
    /// selects the stem of the grammar file: `g` or the (possibly lower-cased) name of a rule of
    /// A or B, so that the same string is used as a file stem and as a symbol name
    #[serde(default)]
    pub stem: u16,
}

thread_local! {
    static STEM: std::cell::RefCell<String> = std::cell::RefCell::new("g".to_string());
}

fn stem() -> String {
    STEM.with(|s| s.borrow().clone())
}

pub fn stem_of(case: &Case, a: &crate::spec::GrammarSpec, b: &crate::spec::GrammarSpec) -> String {
    let mut opts: Vec<String> = vec!["g".to_string()];
    for r in a.rules.iter().chain(b.rules.iter()) {
        if !opts.contains(&r.name) {
            opts.push(r.name.clone());
        }
        let l = r.name.to_lowercase();
        if !opts.contains(&l) {
            opts.push(l);
        }
    }
    // half of the cases keep the plain stem
    if case.stem % 2 == 0 {
        return "g".to_string();
    }
    opts[pick(case.stem, opts.len())].clone()
}

/// The harness's own flag table (written from `rcomp --help` and the `Settings` docs):
/// command-line flag(s) + the equivalent API configuration.
#[derive(Clone, Debug, PartialEq)]
pub enum Flag {
    Glr,
    Table(u8),
    PreferShifts,
    NoShiftsOverEmpty,
    Arrays,
    CustomLexer,
    Builder(u8),
    LocInfo,
    MostSpecific(bool),
    LongestMatch(bool),
    GrammarOrder(bool),
    FancyRegex,
    PartialParse,
    NoSkipWs,
    NoActions,
    Dot,
    Force,
}

impl Flag {
    pub fn cli(&self) -> Vec<String> {
        let v: Vec<&str> = match self {
            Flag::Glr => vec!["--parser-algo", "glr"],
            Flag::Table(0) => vec!["--table-type", "lalr"],
            Flag::Table(1) => vec!["--table-type", "lalr-pager"],
            Flag::Table(_) => vec!["--table-type", "lalr-rn"],
            Flag::PreferShifts => vec!["--prefer-shifts"],
            Flag::NoShiftsOverEmpty => vec!["--no-shifts-over-empty"],
            Flag::Arrays => vec!["--generator-table-type", "arrays"],
            Flag::CustomLexer => vec!["--lexer-type", "custom"],
            Flag::Builder(0) => vec!["--builder-type", "default"],
            Flag::Builder(1) => vec!["--builder-type", "generic"],
            Flag::Builder(_) => vec!["--builder-type", "custom"],
            Flag::LocInfo => vec!["--builder-loc-info"],
            Flag::MostSpecific(true) => vec!["--lexical-disamb-most-specific=true"],
            Flag::MostSpecific(false) => vec!["--lexical-disamb-most-specific=false"],
            Flag::LongestMatch(true) => vec!["--lexical-disamb-longest-match=true"],
            Flag::LongestMatch(false) => vec!["--lexical-disamb-longest-match=false"],
            Flag::GrammarOrder(true) => vec!["--lexical-disamb-grammar-order=true"],
            Flag::GrammarOrder(false) => vec!["--lexical-disamb-grammar-order=false"],
            Flag::FancyRegex => vec!["--fancy-regex"],
            Flag::PartialParse => vec!["--partial-parse"],
            Flag::NoSkipWs => vec!["--no-skip-ws"],
            Flag::NoActions => vec!["--noactions"],
            Flag::Dot => vec!["--dot"],
            Flag::Force => vec!["--force"],
        };
        v.into_iter().map(|s| s.to_string()).collect()
    }
    pub fn api(&self, s: Settings) -> Settings {
        match self {
            Flag::Glr => s.parser_algo(ParserAlgo::GLR),
            Flag::Table(0) => s.table_type(TableType::LALR),
            Flag::Table(1) => s.table_type(TableType::LALR_PAGER),
            Flag::Table(_) => s.table_type(TableType::LALR_RN),
            Flag::PreferShifts => s.prefer_shifts(true),
            Flag::NoShiftsOverEmpty => s.prefer_shifts_over_empty(false),
            Flag::Arrays => s.generator_table_type(GeneratorTableType::Arrays),
            Flag::CustomLexer => s.lexer_type(LexerType::Custom),
            Flag::Builder(0) => s.builder_type(BuilderType::Default),
            Flag::Builder(1) => s.builder_type(BuilderType::Generic),
            Flag::Builder(_) => s.builder_type(BuilderType::Custom),
            Flag::LocInfo => s.builder_loc_info(true),
            Flag::MostSpecific(b) => s.lexical_disamb_most_specific(*b),
            Flag::LongestMatch(b) => s.lexical_disamb_longest_match(*b),
            Flag::GrammarOrder(b) => s.lexical_disamb_grammar_order(*b),
            Flag::FancyRegex => s.fancy_regex(true),
            Flag::PartialParse => s.partial_parse(true),
            Flag::NoSkipWs => s.skip_ws(false),
            Flag::NoActions => s.actions(false),
            Flag::Dot => s.dot(true),
            Flag::Force => s.force(true),
        }
    }
    fn name(&self) -> String {
        self.cli().join(" ")
    }
}

/// Flag set from the tape. Combinations whose meaning depends on the *order* of setters
/// (`--parser-algo glr` with `--prefer-shifts`, `--no-shifts-over-empty` or `--table-type`;
/// grammar order off for LR) are not generated (excluded by construction, counted).
pub fn flags_of(tape: &[u16], excluded: &mut u64) -> Vec<Flag> {
    let mut out: Vec<Flag> = vec![];
    let mut it = tape.iter().copied();
    let mut next = || it.next().unwrap_or(0);
    let glr = pick(next(), 3) == 2;
    if glr {
        out.push(Flag::Glr);
    }
    let cands: Vec<Flag> = vec![
        Flag::Table(pick(next(), 3) as u8),
        Flag::PreferShifts,
        Flag::NoShiftsOverEmpty,
        Flag::Arrays,
        Flag::CustomLexer,
        Flag::Builder(pick(next(), 3) as u8),
        Flag::LocInfo,
        Flag::MostSpecific(pick(next(), 2) == 1),
        Flag::LongestMatch(pick(next(), 2) == 1),
        Flag::GrammarOrder(pick(next(), 2) == 1),
        Flag::FancyRegex,
        Flag::PartialParse,
        Flag::NoSkipWs,
        Flag::NoActions,
        Flag::Dot,
        Flag::Force,
    ];
    for f in cands {
        if pick(next(), 4) != 3 {
            continue;
        }
        let order_dependent = glr && matches!(f, Flag::Table(_) | Flag::PreferShifts | Flag::NoShiftsOverEmpty);
        let lr_order_off = !glr && f == Flag::GrammarOrder(false);
        if order_dependent || lr_order_off {
            *excluded += 1;
            continue;
        }
        out.push(f);
    }
    out
}

fn rcomp_bin() -> PathBuf {
    PathBuf::from(std::env::var("VERIF_RCOMP").unwrap_or_else(|_| "/verif/target/rcomp/debug/rcomp".into()))
}

const OUT_FILES: [&str; 3] = ["<stem>.rs", "<stem>_actions.rs", "<stem>.dot"];

fn read_outputs(dir: &Path) -> Vec<Option<Vec<u8>>> {
    let st = stem();
    [format!("{st}.rs"), format!("{st}_actions.rs"), format!("{st}.dot")].iter().map(|f| std::fs::read(dir.join(f)).ok()).collect()
}

fn fresh(dir: &Path, text: &str) -> PathBuf {
    let _ = std::fs::remove_dir_all(dir);
    std::fs::create_dir_all(dir).expect("scratch");
    let g = dir.join(format!("{}.rustemo", stem()));
    std::fs::write(&g, text).expect("write grammar");
    g
}

/// run rcomp in a fresh process; returns (success, outputs)
fn run_cli(dir: &Path, text: &str, flags: &[Flag]) -> Result<(bool, Vec<Option<Vec<u8>>>), String> {
    let g = fresh(dir, text);
    run_cli_in(dir, &g, flags)
}

/// the same in a directory as it is (whatever files it already holds)
fn run_cli_in(dir: &Path, g: &Path, flags: &[Flag]) -> Result<(bool, Vec<Option<Vec<u8>>>), String> {
    let mut cmd = Command::new(rcomp_bin());
    for f in flags {
        cmd.args(f.cli());
    }
    cmd.arg(g).current_dir(dir).env_remove("OUT_DIR").env_remove("CARGO_MANIFEST_DIR").env_remove("RUSTEMO_TRACE");
    let out = cmd.output().map_err(|e| format!("cannot run rcomp: {e}"))?;
    if !out.status.success() {
        return Err(format!("rcomp exit status {:?}: {}", out.status.code(), String::from_utf8_lossy(&out.stderr)));
    }
    let stdout = String::from_utf8_lossy(&out.stdout);
    Ok((!stdout.contains("Parser(s) not generated."), read_outputs(dir)))
}

fn api_settings(flags: &[Flag]) -> Settings {
    // what a user of the library writes: CLI semantics of --force is "overwrite actions";
    // the library default is force = true, the CLI default is force = false
    let mut s = Settings::new().force(false);
    for f in flags {
        s = f.api(s);
    }
    s
}

fn run_api(dir: &Path, text: &str, flags: &[Flag]) -> Result<(bool, Vec<Option<Vec<u8>>>), crate::compile::PanicInfo> {
    let g = fresh(dir, text);
    let s = api_settings(flags);
    let r = guarded(|| s.process_grammar(&g))?;
    Ok((r.is_ok(), read_outputs(dir)))
}

fn first_diff(a: &[Option<Vec<u8>>], b: &[Option<Vec<u8>>]) -> Option<(usize, String)> {
    for i in 0..a.len() {
        if a[i] != b[i] {
            let d = match (&a[i], &b[i]) {
                (Some(x), Some(y)) => {
                    let xs = String::from_utf8_lossy(x);
                    let ys = String::from_utf8_lossy(y);
                    let mut msg = String::new();
                    for (lx, ly) in xs.lines().zip(ys.lines()) {
                        if lx != ly {
                            msg = format!("first differing line:\n  {lx}\n  {ly}");
                            break;
                        }
                    }
                    if msg.is_empty() {
                        msg = format!("lengths {} vs {}", x.len(), y.len());
                    }
                    msg
                }
                (None, Some(_)) => "file missing on the first side".to_string(),
                (Some(_), None) => "file missing on the second side".to_string(),
                _ => String::new(),
            };
            return Some((i, d));
        }
    }
    None
}

impl Prop for C17 {
    type Case = Case;
    fn id(&self) -> &'static str {
        "C17"
    }
    fn workers(&self) -> usize {
        12
    }
    fn strategy(&self, _tier: Tier) -> BoxedStrategy<Case> {
        (gen::g_ast(), gen::g_ast(), proptest::collection::vec(any::<u16>(), 24), any::<u16>())
            .prop_map(|(tape_a, tape_b, flags, stem)| Case { tape_a, tape_b, flags, stem })
            .boxed()
    }
    fn cases(&self, tier: Tier) -> u32 {
        match tier {
            Tier::Quick => 480,
            Tier::Thorough => 12_000,
        }
    }
    fn max_shrink_iters(&self) -> u32 {
        200
    }
    fn rule(&self) -> String {
        "case = two generated AST-shape-rich grammars A, B (enum / struct / ref / vec / optional / \
         recursive shapes, production kinds, names that collide after suffixing such as B, B1, B11) + \
         a random subset of the rcomp command-line flags; the grammar file is g.rustemo or is named \
         after a rule of A or B (as written or lower-cased). (i) the same rcomp command line runs in 5 \
         fresh processes (std's per-process hash keys differ) and must write byte-identical <stem>.rs, \
         <stem>_actions.rs and <stem>.dot; (ii) the library API in one process generating [A, B, A] and [B, A] \
         must write identical bytes for every A; (iv) rcomp --force into a directory pre-seeded with the same files in CRLF / without final newline writes the bytes of a fresh directory; (iii) rcomp <flags> and the API configured through \
         the harness's own flag->setter table must write byte-identical files and agree on \
         success. Flag combinations whose meaning depends on setter order are excluded by \
         construction (counted). non-trivial = case with >= 2 non-default flags or a grammar with a \
         rule whose alternatives need choice-name de-duplication (two references to each of two \
         rules)"
            .into()
    }
    fn assumptions(&self) -> Vec<String> {
        vec![
            "hash-seed independence is probabilistic: a two-way order dependence is seen with probability 1 - 2^-4 per grammar with 5 processes".into(),
            "rcomp is rebuilt from /repo's working tree by ./check before the run".into(),
            "CLI --force corresponds to Settings::force(true); without it the API side uses force(false) (the CLI default)".into(),
        ]
    }
    fn describe(&self, case: &Case) -> Value {
        let mut ex = 0;
        json!({"grammar_a": gen::build_ast(&case.tape_a).render(), "grammar_b": gen::build_ast(&case.tape_b).render(),
               "flags": flags_of(&case.flags, &mut ex).iter().map(|f| f.name()).collect::<Vec<_>>()})
    }
    fn check(&self, case: &Case, st: &mut Stats) -> Outcome {
        let spec_a = gen::build_ast(&case.tape_a);
        let spec_b = gen::build_ast(&case.tape_b);
        let (ta, tb) = (spec_a.render(), spec_b.render());
        let mut excluded = 0;
        let flags = flags_of(&case.flags, &mut excluded);
        for _ in 0..excluded {
            st.exclude("order-dependent-flag-combination");
        }
        let base = thread_dir("c17");
        let flag_names: Vec<String> = flags.iter().map(|f| f.name()).collect();
        let stem_name = stem_of(case, &spec_a, &spec_b);
        STEM.with(|s| *s.borrow_mut() = stem_name.clone());
        if stem_name != "g" {
            st.class("file-stem-is-a-symbol-name");
        }
        let ctx = |m: String| format!("flags: {}\ngrammar file: {stem_name}.rustemo\ngrammar:\n{ta}\n{m}", flag_names.join(" "));
        // (i) fresh processes
        let mut first: Option<(bool, Vec<Option<Vec<u8>>>)> = None;
        for k in 0..5 {
            st.sub();
            let r = match run_cli(&base.join(format!("cli{k}")), &ta, &flags) {
                Ok(r) => r,
                Err(e) => {
                    // a crash of rcomp is C16's subject
                    st.discard(&format!("rcomp-failed:{}", crate::compile::norm_msg(&e).chars().take(60).collect::<String>()));
                    return Outcome::Pass;
                }
            };
            match &first {
                None => first = Some(r),
                Some(f) => {
                    if f.0 != r.0 {
                        return Outcome::fail("proc|success-differs", ctx(format!("process 0 vs {k}")));
                    }
                    if let Some((i, d)) = first_diff(&f.1, &r.1) {
                        return Outcome::fail(
                            format!("proc|{}", OUT_FILES[i]),
                            ctx(format!("process 0 and process {k} wrote different {}:\n{d}", OUT_FILES[i])),
                        );
                    }
                }
            }
        }
        let (cli_ok, cli_out) = first.unwrap();
        st.class(if cli_ok { "cli-generated" } else { "cli-rejected" });
        // (iii) CLI vs API
        let api = match run_api(&base.join("api"), &ta, &flags) {
            Ok(r) => r,
            Err(p) => {
                return Outcome::fail(
                    format!("cli-api|api-panics-cli-does-not|{}", panic_sig(&p)),
                    ctx(format!("{p:?}")),
                )
            }
        };
        if api.0 != cli_ok {
            return Outcome::fail(
                format!("cli-api|success|{}", flag_names.join(",")),
                ctx(format!("rcomp generated a parser: {cli_ok}; API: {}", api.0)),
            );
        }
        if let Some((i, d)) = first_diff(&cli_out, &api.1) {
            // which flag is responsible? drop flags one at a time
            let mut culprit = String::from("?");
            for skip in 0..flags.len() {
                let sub: Vec<Flag> = flags.iter().enumerate().filter(|(j, _)| *j != skip).map(|(_, f)| f.clone()).collect();
                if let (Ok(c), Ok(a)) = (run_cli(&base.join("cli_sub"), &ta, &sub), run_api(&base.join("api_sub"), &ta, &sub)) {
                    if first_diff(&c.1, &a.1).is_none() {
                        culprit = flags[skip].name();
                        break;
                    }
                }
            }
            return Outcome::fail(
                format!("cli-api|{}|{culprit}", OUT_FILES[i]),
                ctx(format!("rcomp and the API wrote different {}:\n{d}", OUT_FILES[i])),
            );
        }
        // (iv) history on disk: with --force the bytes must not depend on what the output
        // directory held before (here: the same files with CRLF line ends / without the final
        // newline)
        if cli_ok {
            let mut f2 = flags.clone();
            if !f2.contains(&Flag::Force) {
                f2.push(Flag::Force);
            }
            if let Ok(reference) = run_cli(&base.join("force_ref"), &ta, &f2) {
                let dir = base.join("force_crlf");
                let g = fresh(&dir, &ta);
                let st_ = stem();
                for (k, name) in [format!("{st_}.rs"), format!("{st_}_actions.rs")].iter().enumerate() {
                    if let Some(Some(bytes)) = reference.1.get(k) {
                        let t = String::from_utf8_lossy(bytes).to_string();
                        let changed = if case.stem % 4 < 2 { t.replace('\n', "\r\n") } else { t.trim_end_matches('\n').to_string() };
                        let _ = std::fs::write(dir.join(name), changed);
                    }
                }
                st.sub();
                if let Ok(again) = run_cli_in(&dir, &g, &f2) {
                    if let Some((i, d)) = first_diff(&reference.1, &again.1) {
                        return Outcome::fail(
                            format!("history|{}", OUT_FILES[i]),
                            ctx(format!("rcomp --force into a directory that already held the same files with other line ends wrote different {}:\n{d}", OUT_FILES[i])),
                        );
                    }
                }
            }
        }
        // (ii) processing order within one process
        if cli_ok {
            let a1 = run_api(&base.join("ord1"), &ta, &flags);
            let _b = run_api(&base.join("ordb"), &tb, &flags);
            let a2 = run_api(&base.join("ord2"), &ta, &flags);
            if let (Ok(a1), Ok(a2)) = (a1, a2) {
                if let Some((i, d)) = first_diff(&a1.1, &a2.1) {
                    return Outcome::fail(
                        format!("order|{}", OUT_FILES[i]),
                        ctx(format!("generating A, B, A in one process gave different {} for A:\n{d}\ngrammar B:\n{tb}", OUT_FILES[i])),
                    );
                }
                if let Some((i, d)) = first_diff(&a1.1, &cli_out) {
                    return Outcome::fail(format!("order|vs-fresh-process|{}", OUT_FILES[i]), ctx(d));
                }
            }
        }
        let dedup = spec_a.rules.iter().any(|r| {
            r.alts.len() == 4 && r.alts[0].syms.last().map(|u| u.sym) == r.alts[1].syms.last().map(|u| u.sym)
                && r.alts[2].syms.last().map(|u| u.sym) == r.alts[3].syms.last().map(|u| u.sym)
        });
        if dedup {
            st.class("grammar-with-choice-name-deduplication");
        }
        if flags.len() >= 2 || dedup {
            st.nontrivial(&format!("{ta}\n{flag_names:?}"), || {
                json!({"grammar": ta, "flags": flag_names, "generated": cli_ok,
                       "parser_bytes": cli_out[0].as_ref().map(|v| v.len()), "actions_bytes": cli_out[1].as_ref().map(|v| v.len())})
            });
        }
        Outcome::Pass
    }
}
