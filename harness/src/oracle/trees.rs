//! Reference enumerator of all derivation trees of an input, over character positions.
//! Independent of rustemo: own recognisers (plain `starts_with` / anchored regex), own
//! whitespace skipping, memoised counting, explicit enumeration.

use crate::spec::{Bnf, RecSpec, Sym, TermSpec};
use rustemo::regex::Regex; // the third-party regex crate (re-exported); not rustemo code
use std::collections::{BTreeSet, HashMap};

pub enum RefRec {
    Str(String),
    Re(Regex),
}

pub struct CharLex<'a> {
    pub input: &'a str,
    pub recs: Vec<RefRec>,
    pub skip_ws: bool,
}

pub fn ref_recs(terms: &[TermSpec]) -> Result<Vec<RefRec>, String> {
    terms
        .iter()
        .map(|t| match &t.rec {
            RecSpec::Str(s) => Ok(RefRec::Str(s.clone())),
            RecSpec::Regex(r) => {
                Regex::new(&format!("^(?:{})", r)).map(RefRec::Re).map_err(|e| e.to_string())
            }
        })
        .collect()
}

impl<'a> CharLex<'a> {
    pub fn new(input: &'a str, terms: &[TermSpec], skip_ws: bool) -> Result<Self, String> {
        Ok(CharLex { input, recs: ref_recs(terms)?, skip_ws })
    }
    pub fn skip(&self, pos: usize) -> usize {
        if !self.skip_ws {
            return pos;
        }
        let mut p = pos;
        for c in self.input[pos..].chars() {
            if c.is_whitespace() {
                p += c.len_utf8();
            } else {
                break;
            }
        }
        p
    }
    /// match terminal `t` exactly at byte position `pos` (no skipping); returns end.
    pub fn mat(&self, t: usize, pos: usize) -> Option<usize> {
        let rest = &self.input[pos..];
        match &self.recs[t] {
            RefRec::Str(s) => {
                if rest.starts_with(s.as_str()) {
                    Some(pos + s.len())
                } else {
                    None
                }
            }
            RefRec::Re(r) => r.find(rest).map(|m| pos + m.end()),
        }
    }
}

#[derive(Clone, Debug, PartialEq, Eq, PartialOrd, Ord, Hash)]
pub enum RefTree {
    Leaf { term: usize, start: usize, end: usize },
    Node { nt: usize, alt: usize, children: Vec<RefTree> },
}

impl RefTree {
    pub fn is_empty_yield(&self) -> bool {
        match self {
            RefTree::Leaf { .. } => false,
            RefTree::Node { children, .. } => children.iter().all(|c| c.is_empty_yield()),
        }
    }
    /// Remove, bottom-up, trailing children with empty yield.
    pub fn strip(&self) -> RefTree {
        match self {
            RefTree::Leaf { .. } => self.clone(),
            RefTree::Node { nt, alt, children } => {
                let mut ch: Vec<RefTree> = children.iter().map(|c| c.strip()).collect();
                while ch.last().map(|c| c.is_empty_yield()).unwrap_or(false) {
                    ch.pop();
                }
                RefTree::Node { nt: *nt, alt: *alt, children: ch }
            }
        }
    }
    pub fn canon(&self, g: &Bnf) -> String {
        match self {
            RefTree::Leaf { term, start, end } => format!("{}@{}-{}", g.term_names[*term], start, end),
            RefTree::Node { nt, alt, children } => {
                let mut s = format!("({}#{}", g.nts[*nt].name, alt);
                for c in children {
                    s.push(' ');
                    s.push_str(&c.canon(g));
                }
                s.push(')');
                s
            }
        }
    }
    pub fn leaves(&self, out: &mut Vec<(usize, usize, usize)>) {
        match self {
            RefTree::Leaf { term, start, end } => out.push((*term, *start, *end)),
            RefTree::Node { children, .. } => children.iter().for_each(|c| c.leaves(out)),
        }
    }
    pub fn has_empty_node(&self) -> bool {
        match self {
            RefTree::Leaf { .. } => false,
            RefTree::Node { children, .. } => {
                self.is_empty_yield() || children.iter().any(|c| c.has_empty_node())
            }
        }
    }
}

/// Structural class used in failure signatures: among the (stripped) reference trees there are
/// two nodes of the same production covering the same non-empty span whose numbers of
/// non-elided children differ — i.e. one derivation is a right-nulled (shorter) reduction and
/// another a longer reduction of the same production over the same span.
pub fn rn_fold_candidate(trees: &[RefTree]) -> bool {
    use std::collections::BTreeMap;
    fn walk(t: &RefTree, m: &mut BTreeMap<(usize, usize, usize, usize), Vec<usize>>) {
        if let RefTree::Node { nt, alt, children } = t {
            let mut lv = vec![];
            t.leaves(&mut lv);
            if let (Some(f), Some(l)) = (lv.first(), lv.last()) {
                let e = m.entry((*nt, *alt, f.1, l.2)).or_default();
                if !e.contains(&children.len()) {
                    e.push(children.len());
                }
            }
            for c in children {
                walk(c, m);
            }
        }
    }
    let mut m = BTreeMap::new();
    for t in trees {
        walk(&t.strip(), &mut m);
    }
    m.values().any(|v| v.len() > 1)
}

pub struct TreeEnum<'a> {
    pub g: &'a Bnf,
    pub lex: &'a CharLex<'a>,
    /// positions reachable as "end of previous token" (includes 0)
    pub positions: Vec<usize>,
    count_memo: HashMap<(Sym, usize, usize), u64>,
    in_progress: BTreeSet<(Sym, usize, usize)>,
    pub cyclic_hit: bool,
    pub work: u64,
    /// minimal yield length (in tokens, hence a lower bound in bytes) per nonterminal
    minlen: Vec<usize>,
}

pub const WORK_CAP: u64 = 4_000_000;

impl<'a> TreeEnum<'a> {
    pub fn new(g: &'a Bnf, lex: &'a CharLex<'a>) -> Self {
        // positions reachable by any sequence of terminal matches
        let mut pos: BTreeSet<usize> = BTreeSet::new();
        let mut todo = vec![0usize];
        pos.insert(0);
        while let Some(p) = todo.pop() {
            let s = lex.skip(p);
            for t in 0..g.nterms {
                if let Some(e) = lex.mat(t, s) {
                    if e > s && pos.insert(e) {
                        todo.push(e);
                    }
                }
            }
        }
        TreeEnum {
            g,
            lex,
            positions: pos.into_iter().collect(),
            count_memo: HashMap::new(),
            in_progress: BTreeSet::new(),
            cyclic_hit: false,
            work: 0,
            minlen: g.min_len().into_iter().map(|(l, _)| l).collect(),
        }
    }

    fn sym_min(&self, s: Sym) -> usize {
        match s {
            Sym::T(_) => 1,
            Sym::N(n) => self.minlen[n],
        }
    }

    fn seq_min(&self, syms: &[Sym]) -> usize {
        syms.iter().fold(0usize, |a, s| a.saturating_add(self.sym_min(*s)))
    }

    /// Split points m for symbol k of `syms` spanning [i,m] and the rest spanning [m,j],
    /// pruned by minimal yield lengths (this also removes every re-entrant call on the same
    /// span for acyclic grammars).
    fn splits(&self, syms: &[Sym], k: usize, i: usize, j: usize) -> Vec<usize> {
        let first_min = self.sym_min(syms[k]);
        let rest_min = self.seq_min(&syms[k + 1..]);
        self.positions
            .iter()
            .copied()
            .filter(|m| *m >= i && *m <= j && m - i >= first_min && j - m >= rest_min)
            .collect()
    }

    fn term_match(&self, t: usize, i: usize, j: usize) -> bool {
        let s = self.lex.skip(i);
        matches!(self.lex.mat(t, s), Some(e) if e == j && e > s)
    }

    pub fn count(&mut self, x: Sym, i: usize, j: usize) -> u64 {
        if j < i {
            return 0;
        }
        match x {
            Sym::T(t) => {
                if self.term_match(t, i, j) {
                    1
                } else {
                    0
                }
            }
            Sym::N(a) => {
                if let Some(c) = self.count_memo.get(&(x, i, j)) {
                    return *c;
                }
                if !self.in_progress.insert((x, i, j)) {
                    self.cyclic_hit = true;
                    return 0;
                }
                let mut tot: u64 = 0;
                let nalts = self.g.nts[a].alts.len();
                for ai in 0..nalts {
                    let alt = self.g.nts[a].alts[ai].clone();
                    tot = tot.saturating_add(self.count_seq(&alt, 0, i, j));
                }
                self.in_progress.remove(&(x, i, j));
                self.count_memo.insert((x, i, j), tot);
                tot
            }
        }
    }

    fn count_seq(&mut self, syms: &[Sym], k: usize, i: usize, j: usize) -> u64 {
        self.work += 1;
        if self.work > WORK_CAP {
            return 0;
        }
        if k == syms.len() {
            return if i == j { 1 } else { 0 };
        }
        if j - i < self.seq_min(&syms[k..]) {
            return 0;
        }
        if k + 1 == syms.len() {
            return self.count(syms[k], i, j);
        }
        let mut tot: u64 = 0;
        let ps = self.splits(syms, k, i, j);
        for m in ps {
            let c1 = self.count(syms[k], i, m);
            if c1 == 0 {
                continue;
            }
            let c2 = self.count_seq(syms, k + 1, m, j);
            tot = tot.saturating_add(c1.saturating_mul(c2));
        }
        tot
    }

    /// End positions `j` such that the whole input is a sentence when the start symbol
    /// spans [0, j] (the rest being skippable layout).
    pub fn final_positions(&self) -> Vec<usize> {
        self.positions.iter().copied().filter(|p| self.lex.skip(*p) == self.lex.input.len()).collect()
    }

    pub fn total(&mut self) -> u64 {
        let mut tot: u64 = 0;
        for j in self.final_positions() {
            tot = tot.saturating_add(self.count(Sym::N(self.g.start), 0, j));
        }
        tot
    }

    pub fn enumerate(&mut self, x: Sym, i: usize, j: usize) -> Vec<RefTree> {
        if self.count(x, i, j) == 0 {
            return vec![];
        }
        match x {
            Sym::T(t) => {
                let s = self.lex.skip(i);
                vec![RefTree::Leaf { term: t, start: s, end: j }]
            }
            Sym::N(a) => {
                let mut out = vec![];
                let nalts = self.g.nts[a].alts.len();
                for ai in 0..nalts {
                    let alt = self.g.nts[a].alts[ai].clone();
                    for ch in self.enum_seq(&alt, 0, i, j) {
                        out.push(RefTree::Node { nt: a, alt: ai, children: ch });
                    }
                }
                out
            }
        }
    }

    fn enum_seq(&mut self, syms: &[Sym], k: usize, i: usize, j: usize) -> Vec<Vec<RefTree>> {
        if k == syms.len() {
            return if i == j { vec![vec![]] } else { vec![] };
        }
        let mut out = vec![];
        if j - i < self.seq_min(&syms[k..]) {
            return out;
        }
        let ps = self.splits(syms, k, i, j);
        for m in ps {
            if self.count(syms[k], i, m) == 0 {
                continue;
            }
            if self.count_seq(syms, k + 1, m, j) == 0 {
                continue;
            }
            let firsts = self.enumerate(syms[k], i, m);
            let rests = self.enum_seq(syms, k + 1, m, j);
            for f in &firsts {
                for r in &rests {
                    let mut v = Vec::with_capacity(1 + r.len());
                    v.push(f.clone());
                    v.extend(r.iter().cloned());
                    out.push(v);
                }
            }
        }
        out
    }

    pub fn all_trees(&mut self) -> Vec<RefTree> {
        let mut out = vec![];
        for j in self.final_positions() {
            out.extend(self.enumerate(Sym::N(self.g.start), 0, j));
        }
        out
    }
}

#[cfg(test)]
mod tests {
    use super::*;
    use crate::spec::{NtDef, TermSpec};

    #[test]
    fn ambiguous_expr() {
        use Sym::*;
        // E: E + E | n
        let g = Bnf {
            nterms: 2,
            term_names: vec!["Plus".into(), "N".into()],
            nts: vec![NtDef { name: "E".into(), alts: vec![vec![N(0), T(0), N(0)], vec![T(1)]] }],
            start: 0,
        };
        let terms = vec![TermSpec::str("Plus", "+"), TermSpec::regex("N", "\\d+", &["1"])];
        for (inp, n) in [("1", 1u64), ("1+2", 1), ("1 + 2+3", 2), ("1+2+3+4", 5), ("1+", 0), ("", 0)] {
            let lex = CharLex::new(inp, &terms, true).unwrap();
            let mut te = TreeEnum::new(&g, &lex);
            assert_eq!(te.total(), n, "{inp}");
            assert_eq!(te.all_trees().len() as u64, n);
        }
    }

    #[test]
    fn lexical_ambiguity() {
        use Sym::*;
        // S: T+ ; T: A | AA  with A:'a' AA:'aa'  -> S: S T | T
        let g = Bnf {
            nterms: 2,
            term_names: vec!["A".into(), "AA".into()],
            nts: vec![
                NtDef { name: "S".into(), alts: vec![vec![N(0), N(1)], vec![N(1)]] },
                NtDef { name: "T".into(), alts: vec![vec![T(0)], vec![T(1)]] },
            ],
            start: 0,
        };
        let terms = vec![TermSpec::str("A", "a"), TermSpec::str("AA", "aa")];
        for (inp, n) in [("aaa", 3u64), ("aaaa", 5)] {
            let lex = CharLex::new(inp, &terms, true).unwrap();
            let mut te = TreeEnum::new(&g, &lex);
            assert_eq!(te.total(), n, "{inp}");
        }
    }
}
