#!/bin/bash
# tools/eval_seed.sh <seed-name> <worktree> <check-id> [<check-id> ...]
# Confirms a seeded change (suite passes with it, demo fails with / passes without it) in its
# scratch worktree, stores it under /verif/seeded/<seed-name>/, then applies it to /repo, runs the
# given checks (quick tier) and undoes it again.
set -u
NAME="$1"; WT="$2"; shift; shift
OUT=/verif/seeded/$NAME
mkdir -p "$OUT"
cp "$WT/SEED/patch.diff" "$OUT/patch.diff"
cp "$WT/SEED/meta.json" "$OUT/agent_meta.json" 2>/dev/null
rm -rf "$OUT/demo"; cp -r "$WT/SEED/demo" "$OUT/demo" 2>/dev/null
rm -rf "$OUT/demo/target" "$OUT"/demo/*/target
LOG=$OUT/eval.log; : > "$LOG"
export CARGO_NET_OFFLINE=true
cd "$WT" || exit 2
echo "== suite with the change" >>"$LOG"
SUITE=$(cargo test --workspace --no-fail-fast --offline 2>&1 | grep -E "^test result" | awk '{p+=$4; f+=$6} END {print p" passed "f" failed"}')
echo "$SUITE" >>"$LOG"
git checkout -q -- tests docs examples 2>/dev/null
echo "== demo with the change" >>"$LOG"
bash SEED/demo/run.sh >>"$LOG" 2>&1; WITH=$?
git apply -R SEED/patch.diff || { echo "cannot reverse patch" >>"$LOG"; }
echo "== demo without the change" >>"$LOG"
bash SEED/demo/run.sh >>"$LOG" 2>&1; WITHOUT=$?
git apply SEED/patch.diff
echo "suite: $SUITE; demo with change rc=$WITH; without rc=$WITHOUT" | tee -a "$LOG"
# run the checks against /repo with the change applied
cd /verif
if ! git -C /repo apply --check "$OUT/patch.diff" 2>>"$LOG"; then echo "patch does not apply to /repo" | tee -a "$LOG"; exit 2; fi
git -C /repo apply "$OUT/patch.diff"
RES=""
for id in "$@"; do
  S=$(date +%s)
  O=$(VERIF_SEED=1 ./check "$id" quick 2>&1 | grep -E "^VIOLATION" | head -3)
  E=$(( $(date +%s) - S ))
  if [ -n "$O" ]; then RES="$RES $id:CAUGHT(${E}s)"; else RES="$RES $id:missed(${E}s)"; fi
  echo "--- $id: $O" >>"$LOG"
  # keep the replay of the first catching check
  for f in $(echo "$O" | sed -n 's/.*replay=\(.*\)$/\1/p' | head -1); do cp "$f" "$OUT/caught-by-$id.json" 2>/dev/null; done
done
git -C /repo checkout -- .
git -C /repo status --short | head -3 >>"$LOG"
echo "checks:$RES" | tee -a "$LOG"
python3 - "$OUT" "$SUITE" "$WITH" "$WITHOUT" "$RES" <<'PY'
import json,sys
out,suite,w,wo,res=sys.argv[1:6]
try: am=json.load(open(out+'/agent_meta.json'))
except Exception: am={}
meta={"property":am.get("property"),"summary":am.get("summary"),"needs":am.get("needs"),"files_changed":am.get("files_changed"),
 "confirmed":{"suite_with_change":suite,"demo_rc_with_change":int(w),"demo_rc_without_change":int(wo)},
 "ran":"tools/eval_seed.sh: cargo test --workspace in the scratch worktree with the change; demo/run.sh with and without; git -C /repo apply patch.diff; ./check <id> quick (VERIF_SEED=1); git -C /repo checkout -- .",
 "checks":res.strip().split()}
json.dump(meta,open(out+'/meta.json','w'),indent=1)
PY
