//! C08 — the generated parser source encodes exactly the computed table.
//! Engine B: complete per-cell comparison of the compiled generated module with the table dump +
//! differential parsing (both layouts, and the dump-driven engine A parse).

use crate::compile::{compile, guarded, Algo, Cfg, CompileErr};
use crate::dynp::{self, Node, RunOpts};
use crate::engine_b::{enum_variants, BConfig, GenResult, Scratch};
use crate::gen::{self, Cursor, InputTape, LayoutStyle, Pool};
use crate::props::common::install;
use crate::runner::{batch_runner, report_batch, BatchFailure, RunResult, Stats, Tier};
use crate::spec::*;
use proptest::strategy::{Strategy, ValueTree};
use rustemo_compiler::verif::{DAction, Dump};
use serde::{Deserialize, Serialize};
use serde_json::json;
use std::path::Path;
use std::time::Instant;

#[derive(Clone, Debug, Serialize, Deserialize)]
pub enum Gram {
    Ast(Vec<u16>),
    Bnf(GrammarSpec, u8),
}

#[derive(Clone, Debug, Serialize, Deserialize)]
pub struct Case {
    pub gram: Gram,
    pub glr: bool,
    pub arrays: bool,
    pub inputs: Vec<InputTape>,
    /// LR parser over the right-nulled table (`table_type(LALR_RN)`)
    #[serde(default)]
    pub rn: bool,
    /// generated with `skip_ws(false)` (whitespace is then never skipped by the lexer)
    #[serde(default)]
    pub no_skip_ws: bool,
}

fn kind_of(mode: u8) -> Option<LayoutKind> {
    match mode {
        0 | 1 => None,
        8.. => None,
        2 => Some(LayoutKind::WsLine),
        _ => Some(LayoutKind::WsLineBlock),
    }
}

pub fn spec_of(c: &Case) -> GrammarSpec {
    match &c.gram {
        Gram::Ast(t) => gen::build_ast(t),
        Gram::Bnf(s, mode) => {
            let mut s = s.clone();
            s.layout = kind_of(*mode);
            if *mode >= 8 {
                // overlapping-terminal family: non-uniform terminal priorities (finish flags of
                // the per-state terminal lists then differ from state to state)
                for (i, t) in s.terms.iter_mut().enumerate() {
                    t.prio = [None, Some(5), Some(15), None][(i + *mode as usize) % 4];
                }
            }
            s
        }
    }
}

pub fn inputs_of(c: &Case, spec: &GrammarSpec) -> Vec<String> {
    let bnf = match &c.gram {
        Gram::Ast(_) => crate::oracle::desugar::desugar(spec).bnf,
        Gram::Bnf(s, _) => s.bnf(),
    };
    // parsing is compared only where both parsers do a bounded amount of work: GLR on cyclic
    // or empty-ambiguous grammars may build unbounded forests
    if c.glr {
        let reach = bnf.reachable();
        let eps = bnf.eps_derivations();
        if bnf.is_cyclic() || eps.iter().zip(reach.iter()).any(|(e, r)| *r && *e > 1) {
            return vec![];
        }
    }
    let mut raw: Vec<String> = vec![];
    if let Gram::Bnf(_, m) = &c.gram {
        if *m >= 8 {
            // overlapping-terminal family: also arbitrary strings over its alphabet (a regex
            // that is not anchored as a whole finds its later alternatives further on)
            for tape in c.inputs.iter() {
                let s: String = tape.tape.iter().take(2 + tape.tape.len() % 7).map(|v| ['a', 'b', 'c', 'a', 'b', ' '][*v as usize % 6]).collect();
                raw.push(s);
            }
        }
    }
    let mut v: Vec<String> = c
        .inputs
        .iter()
        .enumerate()
        .map(|(ii, tape)| {
            let toks = gen::tokens_for(&bnf, tape, 8);
            let mut cur = Cursor::new(&tape.tape);
            match &c.gram {
                Gram::Bnf(_, m) if *m >= 2 => gen::render_with_layout(&spec.terms, &toks, kind_of(*m), ii % 3 == 0, &mut cur).text,
                _ => gen::render_tokens_sep(&spec.terms, &toks, if ii % 2 == 0 { LayoutStyle::Ascii } else { LayoutStyle::Minimal }, &mut cur, ii % 4 != 3).text,
            }
        })
        .collect();
    v.extend(raw);
    v
}

fn cfg_a(c: &Case) -> Cfg {
    if !c.glr && c.rn {
        return Cfg::lr().with_table(crate::compile::TT::Rn);
    }
    Cfg { algo: if c.glr { Algo::GLR } else { Algo::LR }, ..Cfg::lr() }
}

fn bcfg(c: &Case) -> BConfig {
    BConfig { glr: c.glr, builder: 1, arrays: c.arrays, loc_info: false, fancy: false, custom_lexer: false, rn_table: c.rn && !c.glr, no_skip_ws: c.no_skip_ws }
}

/// dump production index -> ProdKind discriminant
fn prod_disc(d: &Dump) -> Vec<Option<usize>> {
    let mut k = 0;
    d.productions
        .iter()
        .map(|p| {
            let n = &d.nonterminals[p.nonterminal].name;
            if n == "AUG" || n == "AUGL" {
                None
            } else {
                k += 1;
                Some(k - 1)
            }
        })
        .collect()
}

fn canon_a(d: &Dump, pd: &[Option<usize>], n: &Node, out: &mut String) {
    match n {
        Node::Term { kind, span, .. } => out.push_str(&format!("T{}@{}-{}", kind, span.start.pos, span.end.pos)),
        Node::NonTerm { prod, span, children, .. } => {
            out.push_str(&format!("(P{}@{}-{}", pd[*prod].map(|x| x as i64).unwrap_or(-1), span.start.pos, span.end.pos));
            for c in children {
                out.push(' ');
                canon_a(d, pd, c, out);
            }
            out.push(')');
        }
    }
}

/// Expected output lines, rendered from the dump and engine A's parses.
fn expected_lines(d: &Dump, c: &Case, cfg: &Cfg, inputs: &[String]) -> Vec<String> {
    let pd = prod_disc(d);
    let mut out = vec![format!("LM {} {}", cfg.eff_longest(), cfg.eff_order())];
    for (s, st) in d.states.iter().enumerate() {
        for (t, acts) in st.actions.iter().enumerate() {
            let a: Vec<String> = acts
                .iter()
                .map(|a| match a {
                    DAction::Shift(x) => format!("S{x}"),
                    DAction::Reduce(p, l) => format!("R{},{}", pd[*p].map(|x| x as i64).unwrap_or(-1), l),
                    DAction::Accept => "A".to_string(),
                })
                .collect();
            out.push(format!("A {s} {t} [{}]", a.join(" ")));
        }
        for (n, g) in st.gotos.iter().enumerate() {
            if let Some(x) = g {
                out.push(format!("G {s} {} {x}", d.nonterminals[n].name));
            }
        }
        let e: Vec<String> = st.sorted_terminals.iter().map(|(t, f)| format!("{t}:{f}")).collect();
        out.push(format!("E {s} [{}]", e.join(" ")));
    }
    // parses through engine A
    if install(&std::rc::Rc::new(d.clone()), cfg).is_ok() {
        for (k, inp) in inputs.iter().enumerate() {
            dynp::reset_steps(200_000);
            let line = if c.glr {
                match guarded(|| dynp::glr_parse(inp, RunOpts { partial: false, skip_ws: !c.no_skip_ws }, 1, false)) {
                    Ok(Ok(o)) => {
                        let mut s = String::new();
                        if let Some(t) = o.trees.first() {
                            canon_a(d, &pd, t, &mut s);
                        }
                        format!("P {k} OK {} {s}", o.solutions)
                    }
                    Ok(Err(e)) => format!("P {k} ERR {}", e.span.map(|s| s.start.pos as i64).unwrap_or(-1)),
                    Err(_) => format!("P {k} PANIC"),
                }
            } else {
                match guarded(|| dynp::lr_parse(inp, RunOpts { partial: false, skip_ws: !c.no_skip_ws })) {
                    Ok(Ok(t)) => {
                        let mut s = String::new();
                        canon_a(d, &pd, &t, &mut s);
                        format!("P {k} OK 1 {s}")
                    }
                    Ok(Err(e)) => format!("P {k} ERR {}", e.span.map(|s| s.start.pos as i64).unwrap_or(-1)),
                    Err(_) => format!("P {k} PANIC"),
                }
            };
            out.push(line);
        }
        dynp::uninstall();
    }
    out
}

/// The comparison / driver module emitted next to the generated parser.
fn driver(module_dir: &Path, d: &Dump, c: &Case, inputs: &[String]) -> Option<String> {
    let g = module_dir.join("g.rs");
    let states = enum_variants(&g, "State");
    let tokens = enum_variants(&g, "TokenKind");
    let nts = enum_variants(&g, "NonTermKind");
    if states.len() != d.states.len() || tokens.len() != d.terminals.len() {
        return None;
    }
    let mut s = String::from(
        "use super::g::*;\nuse rustemo::{Action, ParserDefinition, Parser};\nfn act(a: &Action<State, ProdKind>) -> String { match a { Action::Shift(s) => format!(\"S{}\", usize::from(*s)), Action::Reduce(p, l) => format!(\"R{},{}\", *p as usize, l), Action::Accept => \"A\".to_string(), Action::Error => \"E\".to_string() } }\n",
    );
    s.push_str("fn canon(n: &rustemo::TreeNode<str, ProdKind, TokenKind>, out: &mut String) { match n { rustemo::TreeNode::TermNode { token, .. } => out.push_str(&format!(\"T{}@{}-{}\", usize::from(token.kind), token.span.start.pos, token.span.end.pos)), rustemo::TreeNode::NonTermNode { prod, span, children, .. } => { out.push_str(&format!(\"(P{}@{}-{}\", *prod as usize, span.start.pos, span.end.pos)); for c in children { out.push(' '); canon(c, out); } out.push(')'); } } }\n");
    s.push_str("fn errpos(e: &rustemo::Error) -> i64 { match e { rustemo::Error::ParseError(p) => p.span.map(|s| s.start.pos as i64).unwrap_or(-1), _ => -2 } }\n");
    s.push_str(&format!("const STATES: [State; {}] = [{}];\n", states.len(), states.iter().map(|v| format!("State::{v}")).collect::<Vec<_>>().join(", ")));
    s.push_str(&format!("const TOKENS: [TokenKind; {}] = [{}];\n", tokens.len(), tokens.iter().map(|v| format!("TokenKind::{v}")).collect::<Vec<_>>().join(", ")));
    s.push_str("pub fn run() -> String {\n    let mut out = String::new();\n");
    s.push_str("    out.push_str(&format!(\"LM {} {}\\n\", <GParserDefinition as ParserDefinition<State, ProdKind, TokenKind, NonTermKind>>::longest_match(), <GParserDefinition as ParserDefinition<State, ProdKind, TokenKind, NonTermKind>>::grammar_order()));\n");
    s.push_str("    for (si, s) in STATES.iter().enumerate() {\n        for (ti, t) in TOKENS.iter().enumerate() {\n            let a = PARSER_DEFINITION.actions(*s, *t);\n            out.push_str(&format!(\"A {si} {ti} [{}]\\n\", a.iter().map(act).collect::<Vec<_>>().join(\" \")));\n        }\n        match si {\n");
    for (si, st) in d.states.iter().enumerate() {
        let mut arm = String::new();
        for (n, g) in st.gotos.iter().enumerate() {
            if g.is_some() {
                let name = &d.nonterminals[n].name;
                if !nts.contains(name) {
                    return None;
                }
                arm.push_str(&format!("out.push_str(&format!(\"G {si} {name} {{}}\\n\", usize::from(PARSER_DEFINITION.goto(*s, NonTermKind::{name})))); "));
            }
        }
        if !arm.is_empty() {
            s.push_str(&format!("            {si} => {{ {arm} }}\n"));
        }
    }
    s.push_str("            _ => {}\n        }\n        let e = PARSER_DEFINITION.expected_token_kinds(*s);\n        out.push_str(&format!(\"E {si} [{}]\\n\", e.iter().map(|(t, f)| format!(\"{}:{}\", usize::from(*t), f)).collect::<Vec<_>>().join(\" \")));\n    }\n");
    s.push_str(&format!("    let inputs: [&str; {}] = [{}];\n", inputs.len(), inputs.iter().map(|i| format!("{i:?}")).collect::<Vec<_>>().join(", ")));
    if c.glr {
        s.push_str("    for (k, inp) in inputs.iter().enumerate() {\n        let r = std::panic::catch_unwind(|| match GParser::new().parse(inp) {\n            Ok(f) => { let mut c = String::new(); if let Some(t) = f.get_first_tree() { let mut b: rustemo::TreeBuilder<str, ProdKind, TokenKind> = rustemo::TreeBuilder::new(); let n = t.build::<_, State>(&mut b); canon(&n, &mut c); } format!(\"P {k} OK {} {c}\", f.solutions()) }\n            Err(e) => format!(\"P {k} ERR {}\", errpos(&e)),\n        });\n        out.push_str(&r.unwrap_or(format!(\"P {k} PANIC\")));\n        out.push('\\n');\n    }\n");
    } else {
        s.push_str("    for (k, inp) in inputs.iter().enumerate() {\n        let r = std::panic::catch_unwind(|| match GParser::new().parse(inp) {\n            Ok(t) => { let mut c = String::new(); canon(&t, &mut c); format!(\"P {k} OK 1 {c}\") }\n            Err(e) => format!(\"P {k} ERR {}\", errpos(&e)),\n        });\n        out.push_str(&r.unwrap_or(format!(\"P {k} PANIC\")));\n        out.push('\\n');\n    }\n");
    }
    s.push_str("    out\n}\n");
    Some(s)
}

fn gen_cases(seed: u64, batch: usize, ngrammars: usize) -> Vec<Case> {
    let mut runner = batch_runner(seed, "C08", batch);
    let mut v = vec![];
    for g in 0..ngrammars {
        let inputs = gen::tapes(10..14, 20).new_tree(&mut runner).unwrap().current();
        let gram = match g % 4 {
            0 | 1 => Gram::Ast(gen::g_ast().new_tree(&mut runner).unwrap().current()),
            2 => {
                let spec = gen::g_bnf(gen::BnfParams { ambiguous_ok: true, ..gen::BnfParams::lr_small() }).new_tree(&mut runner).unwrap().current();
                Gram::Bnf(spec, (g % 5) as u8)
            }
            _ => {
                let spec = gen::g_bnf(gen::BnfParams { pool: Pool::Overlap, max_nts: 3, max_terms: 5, templates: false, ambiguous_ok: true, ..gen::BnfParams::lr_small() })
                    .new_tree(&mut runner)
                    .unwrap()
                    .current();
                Gram::Bnf(spec, 8 + (g % 7) as u8)
            }
        };
        for (glr, arrays) in [(false, false), (false, true), (true, false), (true, true)] {
            // every third plain grammar is generated with whitespace skipping off
            let no_skip_ws = glr == arrays
                && match &gram {
                    Gram::Ast(_) => g % 8 == 1,
                    Gram::Bnf(_, m) => *m >= 8 && g % 2 == 1,
                };
            v.push(Case { gram: gram.clone(), glr, arrays, inputs: inputs.clone(), rn: false, no_skip_ws });
        }
    }
    // right-nullable literature shapes with low-priority EMPTY alternatives, GLR only: the
    // right-nulled table then has cells that differ in nothing but the reduction length. Every
    // shape is used in every batch, once with all EMPTY alternatives low and once at random.
    for (k, set) in gen::RN_SINGLE.iter().enumerate() {
        for all_low in [true, false] {
            if ngrammars < 20 && (k + all_low as usize + batch) % 2 == 0 {
                continue;
            }
            let inputs = gen::tapes(10..14, 20).new_tree(&mut runner).unwrap().current();
            let mut spec = gen::g_bnf(gen::BnfParams { ambiguous_ok: true, templates_only: true, template_set: set, ..gen::BnfParams::lr_small() })
                .new_tree(&mut runner)
                .unwrap()
                .current();
            let tape = proptest::collection::vec(proptest::num::u16::ANY, 24).new_tree(&mut runner).unwrap().current();
            gen::prioritise_against_empty(&mut spec, &mut Cursor::new(&tape), all_low);
            for arrays in [false, true] {
                v.push(Case { gram: Gram::Bnf(spec.clone(), 0), glr: true, arrays, inputs: inputs.clone(), rn: false, no_skip_ws: false });
            }
            // the same right-nulled table under an LR parser (one layout per grammar)
            v.push(Case { gram: Gram::Bnf(spec.clone(), 0), glr: false, arrays: k % 2 == 0, inputs: inputs.clone(), rn: true, no_skip_ws: false });
        }
    }
    v
}

pub fn run(tier: Tier, seed: u64, replay: Option<&Path>) -> RunResult {
    crate::compile::install_panic_hook();
    let t0 = Instant::now();
    let mut st = Stats::default();
    let mut failures: Vec<BatchFailure> = vec![];
    let (batches, per_batch) = match tier {
        Tier::Quick => (1, 20),
        Tier::Thorough => (12, 24),
    };
    let mut all: Vec<Vec<Case>> = vec![];
    if let Some(p) = replay {
        match std::fs::read_to_string(p).ok().and_then(|s| serde_json::from_str::<crate::runner::ReplayFile>(&s).ok()).and_then(|rf| serde_json::from_value::<Case>(rf.case).ok()) {
            Some(c) => all.push(vec![c]),
            None => return RunResult { exit: 2, lines: vec![] },
        }
    } else {
        for b in 0..batches {
            let mut v = gen_cases(seed, b, per_batch);
            if b == 0 {
                if let Ok(rd) = std::fs::read_dir(crate::runner::verif_root().join("regress")) {
                    let mut files: Vec<_> = rd.flatten().map(|e| e.path()).filter(|p| p.file_name().map(|n| n.to_string_lossy().starts_with("C08-")).unwrap_or(false)).collect();
                    files.sort();
                    for f in files {
                        if let Some(c) = std::fs::read_to_string(&f).ok().and_then(|s| serde_json::from_str::<crate::runner::ReplayFile>(&s).ok()).and_then(|rf| serde_json::from_value::<Case>(rf.case).ok()) {
                            v.push(c);
                        }
                    }
                }
            }
            all.push(v);
        }
    }
    let mut lines = vec![];
    for (b, batch) in all.iter().enumerate() {
        let mut sc = Scratch::new(&format!("c08-{b}"));
        // (module, case, text, expected lines)
        let mut mods: Vec<(String, &Case, String, Vec<String>)> = vec![];
        for (i, c) in batch.iter().enumerate() {
            st.evaluations += 1;
            let spec = spec_of(c);
            let text = spec.render();
            let cfg = cfg_a(c);
            if std::env::var_os("VERIF_DEBUG_B").is_some() {
                eprintln!("C08 case {i} glr={} arrays={}\n{text}", c.glr, c.arrays);
            }
            let d = match compile(&text, &cfg) {
                Ok(d) => d,
                Err(CompileErr::Err(_)) => {
                    st.discard("compiler-rejects");
                    continue;
                }
                Err(CompileErr::Panic(_)) => {
                    st.discard("compiler-panic(C16)");
                    continue;
                }
            };
            if d.terminals.len() > dynp::NREC {
                continue;
            }
            let m = format!("m{i}");
            match sc.generate(&m, &text, &bcfg(c)) {
                GenResult::Ok => {}
                GenResult::Rejected(_) => {
                    st.discard("generator-rejects(conflicts-in-LR)");
                    continue;
                }
                GenResult::Panic(..) => {
                    st.discard("generator-panic(C16)");
                    continue;
                }
            }
            let inputs = inputs_of(c, &spec);
            if std::env::var_os("VERIF_DEBUG_B").is_some() {
                eprintln!("C08 case {i} inputs {inputs:?}");
            }
            match driver(&sc.module_dir(&m), &d, c, &inputs) {
                Some(drv) => {
                    sc.write_mod(&m, &bcfg(c), Some(&drv));
                    let exp = expected_lines(&d, c, &cfg, &inputs);
                    mods.push((m, c, text, exp));
                }
                None => {
                    failures.push(BatchFailure {
                        sig: format!("enums|{}|{}", if c.arrays { "arrays" } else { "functions" }, if c.glr { "GLR" } else { "LR" }),
                        msg: format!("State / TokenKind / NonTermKind enums of the generated file do not match the table\ngrammar:\n{text}"),
                        case: serde_json::to_value(c).unwrap(),
                        description: json!({"grammar": text}),
                    });
                    sc.remove_module(&m);
                }
            }
        }
        let (dropped, blocks) = match sc.build_and_run() {
            Ok(x) => x,
            Err(e) => {
                eprintln!("engine B infrastructure: {e}");
                lines.push(format!("inconclusive: {e}"));
                return RunResult { exit: 2, lines };
            }
        };
        for (m, c, text, exp) in &mods {
            if dropped.contains_key(m) {
                st.discard("generated-code-does-not-compile(C11)");
                continue;
            }
            st.sub();
            let layout = if c.arrays { "arrays" } else { "functions" };
            let algo = if c.glr { "GLR" } else if c.rn { "LR(LALR_RN)" } else { "LR" };
            st.class(&format!("module-{layout}-{algo}"));
            let got: Vec<&str> = blocks.get(m).map(|b| b.lines().filter(|l| !l.is_empty()).collect()).unwrap_or_default();
            let mut bad: Option<(String, String)> = None;
            if got.len() != exp.len() {
                bad = Some(("output-length".into(), format!("{} lines for {} expected (first lines: {:?})", got.len(), exp.len(), got.iter().take(3).collect::<Vec<_>>())));
            } else {
                for (g, e) in got.iter().zip(exp.iter()) {
                    if g != e {
                        let kind = match e.chars().next() {
                            Some('A') => "actions",
                            Some('G') => "goto",
                            Some('E') => "expected",
                            Some('L') => "flags",
                            _ => "parse",
                        };
                        bad = Some((kind.to_string(), format!("generated: {g}\ntable    : {e}")));
                        break;
                    }
                }
            }
            match bad {
                Some((kind, msg)) => failures.push(BatchFailure {
                    sig: format!("{kind}|{layout}|{algo}"),
                    msg: format!("module {m} ({layout}, {algo})\ngrammar:\n{text}\n{msg}"),
                    case: serde_json::to_value(c).unwrap(),
                    description: json!({"grammar": text, "layout": layout, "algo": algo}),
                }),
                None => {
                    let cells = exp.iter().filter(|l| l.starts_with('A')).count();
                    let nstates = exp.iter().filter(|l| l.starts_with('E')).count();
                    let multi = exp.iter().any(|l| l.starts_with('A') && l.matches(' ').count() > 3);
                    if nstates >= 6 {
                        st.nontrivial(&format!("{text}\n{layout}\n{algo}"), || {
                            json!({"grammar": text, "layout": layout, "algo": algo, "states": nstates, "action_cells_compared": cells,
                                   "has_multi_action_cell": multi, "inputs_parsed": exp.iter().filter(|l| l.starts_with('P')).count()})
                        });
                    }
                }
            }
        }
        sc.cleanup();
    }
    report_batch(
        "C08",
        tier,
        seed,
        st,
        failures,
        "case = generated grammar (AST-shape-rich conflict-free grammars; conflicting BNF grammars, also with a Layout rule; overlapping terminals incl. a regex with top-level alternation) x {arrays, functions} x {LR, GLR; for the right-nullable family also LR over the LALR_RN table}, generic builder; some grammars are generated with skip_ws(false). The real generated g.rs is compiled by rustc in a scratch crate next to a comparison module emitted by the harness (variant lists recovered from the generated file with syn) which queries PARSER_DEFINITION.actions for EVERY (state, token), goto for every (state, nonterminal) the table defines, expected_token_kinds for every state and longest_match/grammar_order, and parses 10..13 generated inputs with the generated parser; every answer must equal the rendering of the real table dump under the same settings and the parse results (tree with productions, token kinds and spans, solution count, error offset) must equal the dump-driven parse of engine A, hence be identical for both layouts. non-trivial = module with >= 6 states whose comparison was complete".into(),
        vec![
            "rustc compiles the generated code; modules that do not compile are C11's subject (counted as discards)".into(),
            "undefined goto entries are not queried: the table gives no answer for them and both layouts panic by design".into(),
        ],
        json!({}),
        t0,
        lines,
        0,
    )
}
