//! Precedence-climbing reference parser for expression grammars produced by `gen::expr_spec`.
//! Produces the conventional tree as a canonical s-expression (same format as the real tree
//! rendering without positions). Independent of rustemo.

use crate::gen::OpLevel;

#[derive(Clone, Debug, PartialEq)]
pub enum Tok {
    Op(usize), // operator pool index
    LPar,
    RPar,
    Num,
}

pub struct PrecParser<'a> {
    pub levels: &'a [OpLevel],
    /// alternative index of each operator production, of the paren and the atom production
    pub alt_of_op: Vec<(usize, usize)>, // (op pool idx, alt idx)
    pub alt_paren: usize,
    pub alt_num: usize,
    pub names: Vec<(usize, &'static str)>,
    toks: Vec<Tok>,
    pos: usize,
}

impl<'a> PrecParser<'a> {
    pub fn new(levels: &'a [OpLevel]) -> Self {
        let mut alt_of_op = vec![];
        let mut names = vec![];
        let mut k = 0;
        for l in levels {
            for o in &l.ops {
                alt_of_op.push((*o, k));
                names.push((*o, crate::gen::OP_POOL[*o].0));
                k += 1;
            }
        }
        PrecParser { levels, alt_of_op, alt_paren: k, alt_num: k + 1, names, toks: vec![], pos: 0 }
    }

    fn prec(&self, op: usize) -> Option<(u32, bool)> {
        self.levels.iter().find(|l| l.ops.contains(&op)).map(|l| (l.prio, l.right))
    }

    pub fn parse(&mut self, toks: Vec<Tok>) -> Option<String> {
        self.toks = toks;
        self.pos = 0;
        let t = self.expr(0)?;
        if self.pos == self.toks.len() {
            Some(t)
        } else {
            None
        }
    }

    fn primary(&mut self) -> Option<String> {
        match self.toks.get(self.pos)? {
            Tok::Num => {
                self.pos += 1;
                Some(format!("(E#{} Num)", self.alt_num))
            }
            Tok::LPar => {
                self.pos += 1;
                let e = self.expr(0)?;
                if self.toks.get(self.pos) != Some(&Tok::RPar) {
                    return None;
                }
                self.pos += 1;
                Some(format!("(E#{} LPar {} RPar)", self.alt_paren, e))
            }
            _ => None,
        }
    }

    fn expr(&mut self, min_prec: u32) -> Option<String> {
        let mut lhs = self.primary()?;
        loop {
            let op = match self.toks.get(self.pos) {
                Some(Tok::Op(o)) => *o,
                _ => break,
            };
            let (p, right) = self.prec(op)?;
            if p < min_prec {
                break;
            }
            self.pos += 1;
            let rhs = self.expr(if right { p } else { p + 1 })?;
            let alt = self.alt_of_op.iter().find(|(o, _)| *o == op).unwrap().1;
            let name = self.names.iter().find(|(o, _)| *o == op).unwrap().1;
            lhs = format!("(E#{} {} {} {})", alt, lhs, name, rhs);
        }
        Some(lhs)
    }
}

#[cfg(test)]
mod tests {
    use super::*;
    #[test]
    fn climbing() {
        let levels = vec![
            OpLevel { ops: vec![0, 1], right: false, prio: 5 },
            OpLevel { ops: vec![2], right: true, prio: 9 },
        ];
        let mut p = PrecParser::new(&levels);
        use Tok::*;
        // 1 + 2 * 3 - 4  => ((1 + (2*3)) - 4)
        let t = p.parse(vec![Num, Op(0), Num, Op(2), Num, Op(1), Num]).unwrap();
        assert_eq!(t, "(E#1 (E#0 (E#4 Num) Plus (E#2 (E#4 Num) Star (E#4 Num))) Minus (E#4 Num))");
        // right assoc: 1 * 2 * 3 => 1 * (2 * 3)
        let t = p.parse(vec![Num, Op(2), Num, Op(2), Num]).unwrap();
        assert_eq!(t, "(E#2 (E#4 Num) Star (E#2 (E#4 Num) Star (E#4 Num)))");
    }
}
