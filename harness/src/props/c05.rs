//! C05 — conflicts resolve by the documented priority / associativity / prefer-shift rules.
//! Part 1: model-based check of every conflicting cell (raw vs resolved table).
//! Part 2: differential vs a precedence-climbing parser on annotated expression grammars.

use super::common::*;
use crate::compile::{compile, guarded, has_conflicts, panic_sig, Algo, Cfg, CompileErr, TT};
use crate::dynp::{self, RunOpts};
use crate::gen::{self, eff_meta, Cursor, EffMeta, LayoutStyle, OpLevel};
use crate::oracle::prec::{PrecParser, Tok};
use crate::runner::{Outcome, Prop, Stats, Tier};
use crate::spec::*;
use proptest::prelude::*;
use rustemo_compiler::verif::{DAction, Dump};
use serde::{Deserialize, Serialize};
use serde_json::{json, Value};
use std::collections::BTreeSet;

pub struct C05;

#[derive(Clone, Debug, Serialize, Deserialize)]
pub struct TableCase {
    pub g: GCase,
    pub meta_tape: Vec<u16>,
    pub term_assoc: bool,
    pub glr: bool,
    pub ps: bool,
    pub pse: bool,
    pub pager: bool,
    /// right-nulled table (LALR_RN, the GLR default); overrides `pager`
    #[serde(default)]
    pub rn: bool,
}

#[derive(Clone, Debug, Serialize, Deserialize)]
pub struct ExprCase {
    pub levels: Vec<OpLevel>,
    pub on_terms: bool,
    pub kw_alt: bool,
    pub ps: bool,
    pub pse: bool,
    pub pager: bool,
    pub exprs: Vec<Vec<u16>>,
}

#[derive(Clone, Debug, Serialize, Deserialize)]
pub enum Case {
    Table(TableCase),
    Expr(ExprCase),
}

pub fn table_spec(c: &TableCase) -> GrammarSpec {
    let mut s = c.g.spec.clone();
    let mut cur = Cursor::new(&c.meta_tape);
    gen::sprinkle_meta(&mut s, &mut cur, c.term_assoc);
    s
}

fn cfg_of(glr: bool, ps: bool, pse: bool, pager: bool) -> Cfg {
    Cfg {
        algo: if glr { Algo::GLR } else { Algo::LR },
        table: Some(if pager { TT::Pager } else { TT::Lalr }),
        prefer_shifts: Some(ps),
        pse: Some(pse),
        most_specific: None,
        longest: None,
        order: None,
    }
}

#[derive(Clone, Debug, PartialEq, Eq, PartialOrd, Ord)]
enum Cand {
    /// Shift (with its target state) or Accept (usize::MAX)
    Shift(usize),
    /// dump production index, reduction length
    Reduce(usize, usize),
}

fn render_cell(acts: &[DAction]) -> Vec<Cand> {
    acts.iter()
        .map(|a| match a {
            DAction::Shift(t) => Cand::Shift(*t),
            DAction::Accept => Cand::Shift(usize::MAX),
            DAction::Reduce(p, l) => Cand::Reduce(*p, *l),
        })
        .collect()
}

struct Model<'a> {
    spec: &'a GrammarSpec,
    d: &'a Dump,
    lr: bool,
    ps: bool,
    pse: bool,
}

impl<'a> Model<'a> {
    fn prod_meta(&self, p: usize) -> (EffMeta, bool) {
        let dp = &self.d.productions[p];
        let name = &self.d.nonterminals[dp.nonterminal].name;
        match self.spec.rules.iter().find(|r| &r.name == name) {
            Some(r) => (eff_meta(r, &r.alts[dp.ntidx]), r.alts[dp.ntidx].syms.is_empty()),
            None => (EffMeta { prio: 10, assoc: 0, nops: false, nopse: false }, dp.rhs.is_empty()),
        }
    }
    /// priorities of the productions that have terminal `a` after the dot in state q
    fn shift_prios(&self, q: usize, a: usize) -> BTreeSet<u32> {
        let mut s = BTreeSet::new();
        for it in &self.d.states[q].items {
            let dp = &self.d.productions[it.prod];
            if dp.rhs.get(it.position) == Some(&a) {
                s.insert(self.prod_meta(it.prod).0.prio);
            }
        }
        s
    }
    /// Some(true) = reduce beats shift, Some(false) = shift beats reduce, None = neither.
    /// `deciding` receives the name of the rule that decided.
    fn reduce_vs_shift(&self, p: usize, shift_prio: u32, a: usize, deciding: &mut &'static str) -> Option<bool> {
        let (m, empty) = self.prod_meta(p);
        if m.prio > shift_prio {
            *deciding = "priority";
            return Some(true);
        }
        if m.prio < shift_prio {
            *deciding = "priority";
            return Some(false);
        }
        let tassoc = self
            .spec
            .terms
            .iter()
            .find(|t| t.name == self.d.terminals[a].name)
            .map(|t| t.assoc.datum())
            .unwrap_or(0);
        let assoc = if tassoc != 0 { tassoc } else { m.assoc };
        if assoc != 0 {
            *deciding = if tassoc != 0 { "terminal-assoc" } else { "production-assoc" };
            return Some(assoc == 1);
        }
        if empty && self.pse && !m.nopse {
            *deciding = "prefer-shifts-over-empty";
            return Some(false);
        }
        if !empty && self.ps && !m.nops {
            *deciding = "prefer-shifts";
            return Some(false);
        }
        *deciding = if empty && self.pse {
            "nopse"
        } else if !empty && self.ps {
            "nops"
        } else {
            "nothing-applies"
        };
        None
    }
    /// Some(true) = p1 beats p2, Some(false) = p2 beats p1
    /// `l1`, `l2`: reduction lengths (a reduction is empty when its length is 0; in a
    /// right-nulled table that can be a shortened reduction of a non-empty production)
    fn reduce_vs_reduce(&self, p1: usize, l1: usize, p2: usize, l2: usize, deciding: &mut &'static str) -> Option<bool> {
        let (m1, _) = self.prod_meta(p1);
        let (m2, _) = self.prod_meta(p2);
        let (e1, e2) = (l1 == 0, l2 == 0);
        if m1.prio != m2.prio {
            *deciding = "priority";
            return Some(m1.prio > m2.prio);
        }
        if self.lr && e1 != e2 {
            *deciding = "lr-non-empty-over-empty";
            return Some(e2);
        }
        *deciding = "nothing-applies";
        None
    }
}

fn state_items_equal(a: &Dump, b: &Dump) -> bool {
    a.states.len() == b.states.len()
        && a.states.iter().zip(b.states.iter()).all(|(x, y)| {
            x.items.len() == y.items.len()
                && x.items.iter().zip(y.items.iter()).all(|(i, j)| i.prod == j.prod && i.position == j.position)
        })
}

fn check_table(c: &TableCase, st: &mut Stats) -> Outcome {
    let spec = table_spec(c);
    let text = spec.render();
    let raw_text = spec.without_meta().render();
    // right-nulled tables only under GLR: an LR parser over LALR_RN resolves the zero-length
    // reductions of a right-nulled table (shortcut of a non-empty production vs EMPTY production)
    // by a rule that is documented nowhere, so nothing is asserted about those cells
    let tt = if c.rn && c.glr { TT::Rn } else if c.pager { TT::Pager } else { TT::Lalr };
    let raw = match compile_or_discard(&raw_text, &Cfg::raw(tt), st) {
        Ok(d) => d,
        Err(Some(_)) => {
            st.discard("compiler-rejects-grammar");
            return Outcome::Pass;
        }
        Err(None) => return Outcome::Pass,
    };
    if !has_conflicts(&raw) {
        st.discard("no-conflicts");
        return Outcome::Pass;
    }
    let mut cfg = cfg_of(c.glr, c.ps, c.pse, c.pager);
    cfg.table = Some(tt);
    let res = match compile(&text, &cfg) {
        Ok(d) => d,
        Err(CompileErr::Err(e)) => {
            st.discard(&format!("compiler-rejects-annotated:{}", crate::compile::norm_msg(&e).chars().take(30).collect::<String>()));
            return Outcome::Pass;
        }
        Err(CompileErr::Panic(p)) => {
            return Outcome::fail(
                format!("compiler-abort|{}", panic_sig(&p)),
                format!("resolving conflicts aborted the compiler at {}:{}: {}\ngrammar:\n{text}\nsettings: {cfg:?}", p.file, p.line, p.message),
            )
        }
    };
    if !state_items_equal(&raw, &res) {
        st.discard("state-correspondence-differs");
        return Outcome::Pass;
    }
    st.class("grammar-with-conflicts");
    let model = Model { spec: &spec, d: &res, lr: !c.glr, ps: c.ps, pse: c.pse };
    let mut nontrivial = false;
    for (q, (rs, ss)) in raw.states.iter().zip(res.states.iter()).enumerate() {
        for a in 0..rs.actions.len() {
            let rawc = render_cell(&rs.actions[a]);
            if rawc.len() < 2 {
                // a cell without competition must be untouched
                if render_cell(&ss.actions[a]) != rawc {
                    return Outcome::fail(
                        "cell|unconflicted-cell-changed",
                        format!("grammar:\n{text}\nstate {q} terminal {}", res.terminals[a].name),
                    );
                }
                continue;
            }
            st.sub();
            let got: BTreeSet<Cand> = render_cell(&ss.actions[a]).into_iter().collect();
            if got.len() != ss.actions[a].len() {
                return Outcome::fail("cell|duplicate-action", format!("grammar:\n{text}\nstate {q}"));
            }
            let cands: BTreeSet<Cand> = rawc.iter().cloned().collect();
            let ctx = |extra: &str| {
                format!(
                    "grammar:\n{text}\nsettings: algo={} prefer_shifts={} prefer_shifts_over_empty={} table={}\nstate {q}, lookahead {}: candidates {:?}, kept {:?}\n{extra}",
                    if c.glr { "GLR" } else { "LR" }, c.ps, c.pse, tt.name(), res.terminals[a].name, cands, got
                )
            };
            if !got.is_subset(&cands) {
                return Outcome::fail("cell|invented-action", ctx(""));
            }
            let sp = model.shift_prios(q, a);
            let has_shift = cands.iter().any(|c| matches!(c, Cand::Shift(_)));
            let is_accept = rs.actions[a].iter().any(|x| matches!(x, DAction::Accept));
            let shift_prio: Option<u32> = if !has_shift {
                None
            } else if is_accept {
                Some(10)
            } else {
                // "since the same terminal can be used in many productions we will take the
                // maximum for S/R resolution" (LRState::max_prior_for_term)
                if sp.len() > 1 {
                    st.class("cell-shift-priority-is-max-of-several");
                }
                sp.iter().max().copied()
            };
            // pairwise beats relation
            let cv: Vec<Cand> = cands.iter().cloned().collect();
            let mut beaten_by: Vec<Vec<usize>> = vec![vec![]; cv.len()];
            let mut decidable = true;
            let mut deciding_rules: Vec<&'static str> = vec![];
            for i in 0..cv.len() {
                for j in (i + 1)..cv.len() {
                    let mut dec = "";
                    let r: Option<bool> = match (&cv[i], &cv[j]) {
                        (Cand::Shift(_), Cand::Reduce(p, _)) => match shift_prio {
                            Some(spv) => model.reduce_vs_shift(*p, spv, a, &mut dec).map(|b| !b),
                            None => {
                                decidable = false;
                                None
                            }
                        },
                        (Cand::Reduce(p1, l1), Cand::Reduce(p2, l2)) => model.reduce_vs_reduce(*p1, *l1, *p2, *l2, &mut dec),
                        _ => None,
                    };
                    deciding_rules.push(dec);
                    match r {
                        Some(true) => beaten_by[j].push(i),
                        Some(false) => beaten_by[i].push(j),
                        None => {}
                    }
                }
            }
            if cv.len() == 2 && decidable {
                // strong oracle
                let want: BTreeSet<Cand> =
                    cv.iter().enumerate().filter(|(i, _)| beaten_by[*i].is_empty()).map(|(_, c)| c.clone()).collect();
                let kind = if has_shift { "SR" } else { "RR" };
                let dec = deciding_rules[0];
                st.class(&format!("cell-{kind}-{dec}"));
                if dec != "priority" && dec != "nothing-applies" {
                    nontrivial = true;
                }
                if got != want {
                    return Outcome::fail(
                        format!("cell|{kind}|{dec}|expected={:?}|actual={:?}", shape(&want), shape(&got)),
                        ctx(&format!("documented survivors: {want:?}")),
                    );
                }
            } else {
                // weak, order independent oracle
                st.class("cell-multiway");
                if decidable {
                    for (i, cnd) in cv.iter().enumerate() {
                        if beaten_by[i].is_empty() && !got.contains(cnd) {
                            return Outcome::fail(
                                "cell|multiway|unbeaten-candidate-dropped",
                                ctx(&format!("{cnd:?} is beaten by no other candidate")),
                            );
                        }
                        if got.contains(cnd) {
                            if let Some(b) = beaten_by[i].iter().find(|b| got.contains(&cv[**b])) {
                                return Outcome::fail(
                                    "cell|multiway|survivor-coexists-with-its-beater",
                                    ctx(&format!("{cnd:?} is beaten by {:?}", cv[*b])),
                                );
                            }
                        }
                    }
                }
                if got.is_empty() {
                    return Outcome::fail("cell|multiway|all-actions-dropped", ctx(""));
                }
            }
        }
    }
    // "if nothing applies the conflict is reported (LR) or kept (GLR)": the user-facing entry
    // point must fail with the conflicts error exactly when a cell of the resolved table still
    // holds more than one action (LR), and must generate a parser otherwise / always (GLR).
    {
        let remaining = crate::compile::conflict_cells(&res);
        let dir = super::c16::thread_dir("c05");
        let gpath = dir.join("g.rustemo");
        for f in ["g.rs", "g_actions.rs"] {
            let _ = std::fs::remove_file(dir.join(f));
        }
        if std::fs::write(&gpath, &text).is_ok() {
            // for LR the setter order is immaterial (parser_algo(LR) changes nothing): half of the
            // LR cases configure in the order of the rcomp command line (parser_algo last)
            let settings = if !c.glr && c.ps != c.pse { cfg.settings_algo_last().force(true) } else { cfg.settings().force(true) };
            st.sub();
            match guarded(|| settings.process_grammar(&gpath)) {
                Err(p) => {
                    return Outcome::fail(
                        format!("compiler-abort|process_grammar|{}", panic_sig(&p)),
                        format!("process_grammar aborted at {}:{}: {}\ngrammar:\n{text}\nsettings: {cfg:?}", p.file, p.line, p.message),
                    )
                }
                Ok(Ok(())) => {
                    if !c.glr && remaining > 0 {
                        return Outcome::fail(
                            "report|lr-conflict-not-reported",
                            format!("grammar:\n{text}\nsettings: {cfg:?}\n{remaining} cell(s) of the resolved table keep more than one action, yet process_grammar returned Ok"),
                        );
                    }
                    if !dir.join("g.rs").exists() {
                        return Outcome::fail("report|ok-without-parser", format!("grammar:\n{text}\nsettings: {cfg:?}"));
                    }
                    st.class(if c.glr { "entry-point:glr-parser-generated" } else { "entry-point:lr-deterministic" });
                }
                Ok(Err(e)) => {
                    let m = format!("{e}");
                    if m.contains("not deterministic") {
                        if c.glr {
                            return Outcome::fail(
                                "report|glr-conflict-reported-as-error",
                                format!("grammar:\n{text}\nsettings: {cfg:?}\nerror: {m}"),
                            );
                        }
                        if remaining == 0 {
                            return Outcome::fail(
                                "report|lr-conflict-reported-for-resolved-table",
                                format!("grammar:\n{text}\nsettings: {cfg:?}\nevery cell of the resolved table holds at most one action, yet: {m}"),
                            );
                        }
                        st.class("entry-point:lr-conflicts-reported");
                    } else {
                        // other errors of the generator are outside this property
                        st.class("entry-point:other-error");
                    }
                }
            }
        }
    }
    if nontrivial {
        st.nontrivial(&format!("{text}\n{cfg:?}"), || {
            json!({"grammar": text, "algo": if c.glr {"GLR"} else {"LR"}, "prefer_shifts": c.ps,
                   "prefer_shifts_over_empty": c.pse, "table": tt.name(),
                   "raw_conflict_cells": crate::compile::conflict_cells(&raw),
                   "remaining_conflict_cells": crate::compile::conflict_cells(&res)})
        });
    }
    Outcome::Pass
}

fn shape(s: &BTreeSet<Cand>) -> String {
    let sh = s.iter().any(|c| matches!(c, Cand::Shift(_)));
    let r = s.iter().filter(|c| matches!(c, Cand::Reduce(..))).count();
    format!("{}{}", if sh { "S" } else { "" }, "R".repeat(r))
}

// ---------------------------------------------------------------------------------------
// part 2

pub fn expr_tokens(levels: &[OpLevel], tape: &[u16]) -> Vec<Tok> {
    let ops: Vec<usize> = levels.iter().flat_map(|l| l.ops.iter().copied()).collect();
    let mut c = Cursor::new(tape);
    fn gen_e(c: &mut Cursor, ops: &[usize], depth: usize, out: &mut Vec<Tok>) {
        // operand
        if depth < 3 && c.pick(6) == 0 {
            out.push(Tok::LPar);
            gen_e(c, ops, depth + 1, out);
            out.push(Tok::RPar);
        } else {
            out.push(Tok::Num);
        }
        let n = c.pick(4);
        for _ in 0..n {
            if out.len() > 14 {
                break;
            }
            out.push(Tok::Op(ops[c.pick(ops.len())]));
            if depth < 3 && c.pick(6) == 0 {
                out.push(Tok::LPar);
                gen_e(c, ops, depth + 1, out);
                out.push(Tok::RPar);
            } else {
                out.push(Tok::Num);
            }
        }
    }
    let mut out = vec![];
    gen_e(&mut c, &ops, 0, &mut out);
    out
}

fn render_expr(toks: &[Tok], tape: &[u16]) -> String {
    let mut c = Cursor::new(tape);
    let mut s = String::new();
    for t in toks {
        if c.pick(3) == 0 {
            s.push(' ');
        }
        match t {
            Tok::Num => s.push_str(["1", "23", "4", "5"][c.pick(4)]),
            Tok::LPar => s.push('('),
            Tok::RPar => s.push(')'),
            Tok::Op(o) => s.push_str(gen::OP_POOL[*o].1),
        }
    }
    s
}

fn check_expr(c: &ExprCase, st: &mut Stats) -> Outcome {
    let spec = gen::expr_spec(&c.levels, c.on_terms, c.kw_alt);
    let text = spec.render();
    let cfg = cfg_of(false, c.ps, c.pse, c.pager);
    let d = match compile(&text, &cfg) {
        Ok(d) => d,
        Err(CompileErr::Err(e)) => return Outcome::fail("expr-grammar-rejected", format!("{e}\n{text}")),
        Err(CompileErr::Panic(p)) => {
            return Outcome::fail(
                format!("compiler-abort|{}", panic_sig(&p)),
                format!("compiler aborted at {}:{}: {}\ngrammar:\n{text}", p.file, p.line, p.message),
            )
        }
    };
    if has_conflicts(&d) {
        return Outcome::fail(
            format!("tree|conflicts-remain|{}", if c.on_terms { "terminal-assoc" } else { "production-assoc" }),
            format!("every level has a priority and an associativity, yet conflicts remain\ngrammar:\n{text}"),
        );
    }
    if install(&d, &cfg).is_err() {
        return Outcome::Pass;
    }
    st.class(if c.on_terms { "expr-assoc-on-terminals" } else { "expr-assoc-on-productions" });
    for tape in &c.exprs {
        let toks = expr_tokens(&c.levels, tape);
        let inp = render_expr(&toks, tape);
        let mut pp = PrecParser::new(&c.levels);
        let want = match pp.parse(toks.clone()) {
            Some(t) => t,
            None => continue,
        };
        st.sub();
        dynp::reset_steps(LR_STEPS);
        let real = match guarded(|| dynp::lr_parse(&inp, RunOpts::default())) {
            Ok(r) => r,
            Err(p) => return panic_outcome("parse|LR", &p),
        };
        let nops = toks.iter().filter(|t| matches!(t, Tok::Op(_))).count();
        let distinct_levels: BTreeSet<u32> = toks
            .iter()
            .filter_map(|t| if let Tok::Op(o) = t { c.levels.iter().find(|l| l.ops.contains(o)).map(|l| l.prio) } else { None })
            .collect();
        match real {
            Err(e) => {
                return Outcome::fail(
                    "tree|expression-rejected",
                    format!("grammar:\n{text}\ninput {inp:?}\nerror {}", e.message),
                )
            }
            Ok(t) => {
                let got = canon_real(&d, &t, false);
                if got != want {
                    let rel = if c.on_terms { "terminal-assoc" } else { "production-assoc" };
                    let what = if distinct_levels.len() >= 2 { "levels" } else { "same-level" };
                    return Outcome::fail(
                        format!("tree|{rel}|{what}"),
                        format!("grammar:\n{text}\ninput {inp:?}\nreal        : {got}\nconventional: {want}"),
                    );
                }
                if nops >= 3 && distinct_levels.len() >= 2 {
                    st.nontrivial(&format!("{text}\n{inp}"), || json!({"grammar": text, "input": inp, "tree": got}));
                }
            }
        }
    }
    dynp::uninstall();
    Outcome::Pass
}

impl Prop for C05 {
    type Case = Case;
    fn id(&self) -> &'static str {
        "C05"
    }
    fn strategy(&self, tier: Tier) -> BoxedStrategy<Case> {
        let nts = match tier {
            Tier::Quick => 4,
            Tier::Thorough => 6,
        };
        let table = (
            gcase(gen::BnfParams { max_nts: nts, ambiguous_ok: true, ..gen::BnfParams::lr_small() }, 0..1, 1),
            proptest::collection::vec(any::<u16>(), 0..60),
            any::<bool>(),
            any::<bool>(),
            any::<bool>(),
            any::<bool>(),
            any::<bool>(),
            prop::bool::weighted(0.3),
        )
            .prop_map(|(g, meta_tape, term_assoc, glr, ps, pse, pager, rn)| {
                Case::Table(TableCase { g, meta_tape, term_assoc, glr, ps, pse, pager, rn })
            });
        let expr = (
            gen::op_levels(),
            any::<bool>(),
            any::<bool>(),
            any::<bool>(),
            any::<bool>(),
            any::<bool>(),
            proptest::collection::vec(proptest::collection::vec(any::<u16>(), 4..40), 10..24),
        )
            .prop_map(|(levels, on_terms, kw_alt, ps, pse, pager, exprs)| {
                Case::Expr(ExprCase { levels, on_terms, kw_alt, ps, pse, pager, exprs })
            });
        prop_oneof![3 => table, 1 => expr].boxed()
    }
    fn cases(&self, tier: Tier) -> u32 {
        match tier {
            Tier::Quick => 8000,
            Tier::Thorough => 160_000,
        }
    }
    fn rule(&self) -> String {
        "part 1: generated conflict-rich BNF grammars with random priorities / left|reduce|right|shift \
         / nops / nopse on productions and rules, associativity on terminals, x {LR,GLR} x \
         prefer_shifts x prefer_shifts_over_empty x {LALR, LALR_PAGER; LALR_RN under GLR}; two real dumps of the same \
         rules: raw (meta stripped, nothing resolved) and resolved; for every cell with competing \
         actions: two-candidate cells are compared with the documented \
         decision function (priority, terminal-over-production associativity, prefer-shift flags \
         unless nops/nopse, LR non-empty-over-empty for R/R); other cells with an order independent \
         predicate (kept subset of candidates, unbeaten candidates kept, no survivor next to its \
         beater, never empty); the shift priority of a cell is the maximum priority of the productions \
         that have the terminal after the dot in that state; the real process_grammar entry point \
         must report the conflicts error for LR exactly when a cell keeps several actions and \
         generate a parser otherwise (GLR: always); compiler abort = failure. part 2: expression grammars with a random \
         precedence table (associativity on productions or on operator terminals): tree of the real \
         LR parser == tree of a precedence-climbing parser. non-trivial = grammar with a resolved \
         cell decided by associativity or a prefer-shift flag; expression with >= 3 operators from \
         >= 2 levels"
            .into()
    }
    fn assumptions(&self) -> Vec<String> {
        vec![
            "effective production meta-data computed from the spec by the documented inheritance rule (C09 checks the builder's inheritance separately); rule- and production-level associativity are never combined".into(),
            "shift priority = maximum priority of the productions shifting the terminal in that state (doc comment of LRState::max_prior_for_term, property anchor)".into(),
        ]
    }
    fn describe(&self, case: &Case) -> Value {
        match case {
            Case::Table(c) => json!({"part": 1, "grammar": table_spec(c).render(), "glr": c.glr, "prefer_shifts": c.ps,
                "prefer_shifts_over_empty": c.pse, "pager": c.pager}),
            Case::Expr(c) => {
                let inputs: Vec<String> = c.exprs.iter().map(|t| render_expr(&expr_tokens(&c.levels, t), t)).collect();
                json!({"part": 2, "grammar": gen::expr_spec(&c.levels, c.on_terms, c.kw_alt).render(), "inputs": inputs})
            }
        }
    }
    fn check(&self, case: &Case, st: &mut Stats) -> Outcome {
        match case {
            Case::Table(c) => check_table(c, st),
            Case::Expr(c) => check_expr(c, st),
        }
    }
}

#[allow(dead_code)]
fn unused(_: LayoutStyle) {}
