#!/bin/bash
# tools/recheck_seed.sh <seed-name> <check-id> [seed] : apply the seeded change to /repo, run one
# check (quick), undo, and record the outcome in the seed's meta.json
NAME="$1"; ID="$2"; SEED="${3:-1}"
OUT=/verif/seeded/$NAME
cd /verif
git -C /repo apply "$OUT/patch.diff" || exit 2
S=$(date +%s)
O=$(VERIF_SEED=$SEED ./check "$ID" quick 2>&1 | grep -E "^VIOLATION" | head -1)
E=$(( $(date +%s) - S ))
git -C /repo checkout -- .
if [ -n "$O" ]; then R="$ID:CAUGHT(${E}s)"; f=$(echo "$O" | sed -n 's/.*replay=\(.*\)$/\1/p'); cp "$f" "$OUT/caught-by-$ID.json" 2>/dev/null; else R="$ID:missed(${E}s)"; fi
echo "$NAME $R"
python3 - "$OUT" "$R" <<'PY'
import json,sys
out,r=sys.argv[1:3]
m=json.load(open(out+'/meta.json'))
m.setdefault('rechecks_after_strengthening',[]).append(r)
json.dump(m,open(out+'/meta.json','w'),indent=1)
PY
