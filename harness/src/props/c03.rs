//! C03 — the GLR forest is exactly the set of derivation trees.
//! Exhaustive comparison with the reference derivation enumerator (oracle::trees).

use super::common::*;
use crate::compile::{guarded, Cfg};
use crate::dynp::{self, RunOpts};
use crate::gen::{self, Cursor, LayoutStyle, Pool};
use crate::oracle::trees::{CharLex, TreeEnum};
use crate::runner::{Outcome, Prop, Stats, Tier};
use crate::spec::*;
use proptest::prelude::*;
use serde::{Deserialize, Serialize};
use serde_json::{json, Value};
use std::collections::BTreeMap;

pub struct C03;

#[derive(Clone, Debug, Serialize, Deserialize)]
pub struct Case {
    pub g: GCase,
    /// lexically ambiguous family (T-overlap, all lexical strategies off)
    pub overlap: bool,
    /// raw strings over {a,b,c,space} for the overlap family
    pub raw_inputs: Vec<String>,
}

pub const TREE_CAP: u64 = 300;

pub fn input_text(case: &Case, bnf: &Bnf, ii: usize) -> String {
    let tape = &case.g.tapes[ii];
    let toks = gen::tokens_for(bnf, tape, 9);
    let mut c = Cursor::new(&tape.tape);
    let style = if ii % 4 == 0 { LayoutStyle::Ascii } else { LayoutStyle::Minimal };
    gen::render_tokens_sep(&case.g.spec.terms, &toks, style, &mut c, !case.overlap || ii % 2 == 0).text
}

impl Prop for C03 {
    type Case = Case;
    fn id(&self) -> &'static str {
        "C03"
    }
    fn strategy(&self, tier: Tier) -> BoxedStrategy<Case> {
        let (nts, inputs) = match tier {
            Tier::Quick => (4, 10..18),
            Tier::Thorough => (6, 20..32),
        };
        let plain = gcase(gen::BnfParams { max_nts: nts, ..gen::BnfParams::glr_small() }, inputs.clone(), 24)
            .prop_map(|g| Case { g, overlap: false, raw_inputs: vec![] });
        let overlap = (
            gcase(
                gen::BnfParams {
                    max_nts: 3,
                    max_alts: 3,
                    max_syms: 3,
                    max_terms: 4,
                    pool: Pool::Overlap,
                    templates: false,
                    ambiguous_ok: true,
                    ..gen::BnfParams::lr_small()
                },
                6..12,
                16,
            ),
            proptest::collection::vec("[abc ]{0,9}", 4..8),
        )
            .prop_map(|(g, raw_inputs)| Case { g, overlap: true, raw_inputs });
        prop_oneof![3 => plain, 1 => overlap].boxed()
    }
    fn cases(&self, tier: Tier) -> u32 {
        match tier {
            Tier::Quick => 5000,
            Tier::Thorough => 100_000,
        }
    }
    fn rule(&self) -> String {
        "case = generated BNF grammar (ambiguous / non-LR / nullable / hidden-recursive shapes, or \
         the lexically ambiguous T-overlap family with all lexical strategies off) + input tapes; \
         scope = acyclic and every reachable nonterminal has <= 1 derivation of the empty string \
         (decided by the harness on the spec), reference tree count <= 300; oracle: Ok iff the \
         reference enumerator finds a tree; solutions() == number of reference trees; the multiset \
         of canon(strip(build(get_tree(i)))) equals the set of canon(strip(reference tree)) incl. \
         token byte spans; iter / &forest / into_iter give the same sequence; get_tree(n+k) is \
         None. non-trivial = (grammar, input) with >= 2 reference trees, or a sentence whose tree \
         has an empty-yield node"
            .into()
    }
    fn assumptions(&self) -> Vec<String> {
        vec![
            "reference recognisers: starts_with for strings, leftmost-first anchored regex (regex crate) for regex terminals — a regex contributes one match per position".into(),
            "inputs <= 9 tokens, grammars <= 6 nonterminals, <= 300 trees".into(),
        ]
    }
    fn describe(&self, case: &Case) -> Value {
        let bnf = case.g.spec.bnf();
        let mut inputs: Vec<String> = (0..case.g.tapes.len()).map(|i| input_text(case, &bnf, i)).collect();
        inputs.extend(case.raw_inputs.iter().cloned());
        json!({"grammar": case.g.spec.render(), "overlap_family": case.overlap, "inputs": inputs})
    }

    fn check(&self, case: &Case, st: &mut Stats) -> Outcome {
        let spec = &case.g.spec;
        let bnf = spec.bnf();
        if bnf.is_cyclic() {
            st.discard("out-of-scope-cyclic");
            return Outcome::Pass;
        }
        let reach = bnf.reachable();
        let eps = bnf.eps_derivations();
        if eps.iter().zip(reach.iter()).any(|(e, r)| *r && *e > 1) {
            st.discard("out-of-scope-ambiguous-empty");
            return Outcome::Pass;
        }
        let text = spec.render();
        let cfg = if case.overlap {
            Cfg { most_specific: Some(false), longest: Some(false), order: Some(false), ..Cfg::glr() }
        } else {
            Cfg::glr()
        };
        let d = match compile_or_discard(&text, &cfg, st) {
            Ok(d) => d,
            Err(Some(e)) => {
                st.discard(&format!("compiler-rejects:{}", crate::compile::norm_msg(&e).chars().take(40).collect::<String>()));
                return Outcome::Pass;
            }
            Err(None) => return Outcome::Pass,
        };
        if let Err(e) = install(&d, &cfg) {
            st.discard(&format!("install:{e}"));
            return Outcome::Pass;
        }
        st.class(if case.overlap { "family-overlap" } else { "family-plain" });
        let mut inputs: Vec<String> = (0..case.g.tapes.len()).map(|i| input_text(case, &bnf, i)).collect();
        if case.overlap {
            inputs.extend(case.raw_inputs.iter().cloned());
        }
        let fam = if case.overlap { "overlap" } else { "plain" };
        // (input, solutions and first tree of a fresh parser; None = rejected) of the inputs
        // compared with the reference below, for the parser-reuse pass
        let mut fresh: Vec<(&str, Option<(usize, Option<dynp::Node>)>)> = vec![];
        for inp in &inputs {
            let lex = match CharLex::new(inp, &spec.terms, true) {
                Ok(l) => l,
                Err(_) => {
                    st.discard("bad-regex");
                    return Outcome::Pass;
                }
            };
            let mut te = TreeEnum::new(&bnf, &lex);
            let total = te.total();
            if te.cyclic_hit {
                st.discard("reference-cyclic-hit");
                continue;
            }
            if te.work > crate::oracle::trees::WORK_CAP {
                st.discard("reference-work-cap");
                continue;
            }
            if total > TREE_CAP {
                st.discard("reference-tree-cap");
                continue;
            }
            st.sub();
            dynp::reset_steps(GLR_STEPS);
            let real = match guarded(|| dynp::glr_parse(inp, RunOpts::default(), 400, true)) {
                Ok(r) => r,
                Err(p) => return panic_outcome(&format!("glr-parse|{fam}"), &p),
            };
            let ctx = || format!("grammar:\n{text}\ninput: {inp:?}\nreference trees: {total}");
            fresh.push((inp.as_str(), real.as_ref().ok().map(|o| (o.solutions, o.trees.first().cloned()))));
            match &real {
                Err(e) => {
                    if total > 0 {
                        return Outcome::fail(
                            format!("accept|{fam}|real=Err|oracle=sentence"),
                            format!("{}\nreal error: {}", ctx(), e.message),
                        );
                    }
                    st.class("non-sentence");
                }
                Ok(out) => {
                    if total == 0 {
                        return Outcome::fail(
                            format!("accept|{fam}|real=Ok|oracle=non-sentence"),
                            format!("{}\nreal solutions: {}", ctx(), out.solutions),
                        );
                    }
                    st.class("sentence");
                    if out.solutions as u64 != total {
                        let refs = te.all_trees();
                        return Outcome::fail(
                            format!(
                                "count|{fam}|{}{}",
                                if (out.solutions as u64) < total { "real<oracle" } else { "real>oracle" },
                                if crate::oracle::trees::rn_fold_candidate(&refs) { "|rn-fold-candidate" } else { "" }
                            ),
                            format!("{}\nreal solutions: {}", ctx(), out.solutions),
                        );
                    }
                    if out.trees.len() != out.solutions {
                        return Outcome::fail(
                            format!("index-below-solutions-none|{fam}"),
                            format!("{}\nget_tree returned None for an index < solutions", ctx()),
                        );
                    }
                    let refs = te.all_trees();
                    let mut want: BTreeMap<String, i64> = BTreeMap::new();
                    for t in &refs {
                        *want.entry(t.strip().canon(&bnf)).or_default() += 1;
                    }
                    if want.values().any(|v| *v > 1) {
                        // cannot happen in scope (stripping is injective there)
                        st.discard("reference-strip-collision");
                        continue;
                    }
                    let mut got: BTreeMap<String, i64> = BTreeMap::new();
                    for t in &out.trees {
                        *got.entry(canon_real(&d, &strip_real(t), true)).or_default() += 1;
                    }
                    if let Some((k, v)) = got.iter().find(|(_, v)| **v > 1) {
                        return Outcome::fail(
                            format!("dup|{fam}"),
                            format!("{}\ntree enumerated {v} times: {k}", ctx()),
                        );
                    }
                    if let Some(k) = want.keys().find(|k| !got.contains_key(*k)) {
                        return Outcome::fail(
                            format!("missing|{fam}"),
                            format!("{}\nmissing tree: {k}\nreal trees: {:?}", ctx(), got.keys().collect::<Vec<_>>()),
                        );
                    }
                    if let Some(k) = got.keys().find(|k| !want.contains_key(*k)) {
                        return Outcome::fail(
                            format!("invented|{fam}"),
                            format!("{}\ninvented tree: {k}\nreference: {:?}", ctx(), want.keys().collect::<Vec<_>>()),
                        );
                    }
                    if !out.beyond_none {
                        return Outcome::fail(format!("index-beyond|{fam}"), ctx());
                    }
                    if !out.first_is_zero {
                        return Outcome::fail(format!("first-tree|{fam}"), ctx());
                    }
                    if !(out.iter_same && out.iter_count == out.trees.len()) {
                        return Outcome::fail(format!("iter|{fam}"), ctx());
                    }
                    if !out.into_iter_ref_same {
                        return Outcome::fail(format!("into-iter-ref|{fam}"), ctx());
                    }
                    if !out.into_iter_same {
                        return Outcome::fail(format!("into-iter|{fam}"), ctx());
                    }
                    let has_empty = refs.iter().any(|t| t.has_empty_node());
                    if total >= 2 || has_empty {
                        if total >= 2 {
                            st.class("ambiguous-input");
                        }
                        if has_empty {
                            st.class("tree-with-empty-node");
                        }
                        st.nontrivial(&format!("{text}\n{inp}"), || {
                            json!({"grammar": text, "input": inp, "reference_trees": total,
                                   "real_solutions": out.solutions,
                                   "first_tree": got.keys().next()})
                        });
                    }
                }
            }
        }
        // the same inputs once more through ONE parser instance: the forest of every input must
        // be the one a fresh parser builds (which was compared with the reference above)
        {
            let texts: Vec<&str> = fresh.iter().map(|x| x.0).collect();
            for (k, item) in dynp::glr_parse_session(&texts, RunOpts::default(), GLR_STEPS, true).into_iter().enumerate() {
                st.sub();
                let ctx = || format!("grammar:\n{text}\none parser instance parsed, in order: {:?}\ninput #{k}: {:?}", &texts[..=k], texts[k]);
                match item {
                    Err(p) => return panic_outcome(&format!("reused-parser|glr-parse|{fam}"), &p),
                    Ok(r) => {
                        let got = r.ok();
                        if got != fresh[k].1 {
                            return Outcome::fail(
                                format!("reused-parser|forest-differs|{fam}"),
                                format!(
                                    "{}\nreused parser: {}\nfresh parser : {}",
                                    ctx(),
                                    got.map(|(n, t)| format!("{n} solutions, first tree {}", t.map(|t| canon_real(&d, &t, true)).unwrap_or_default())).unwrap_or("Err".into()),
                                    fresh[k].1.clone().map(|(n, t)| format!("{n} solutions, first tree {}", t.map(|t| canon_real(&d, &t, true)).unwrap_or_default())).unwrap_or("Err".into()),
                                ),
                            );
                        }
                    }
                }
            }
            st.class("reused-parser-session");
        }
        dynp::uninstall();
        Outcome::Pass
    }
}
