#![no_main]
//! libFuzzer target for C16: bytes -> (settings, grammar text) -> real compiler.
//! Oracle inside the target: no panic other than the recorded known findings.
use libfuzzer_sys::fuzz_target;
use vcheck::fuzzsupport as fs;

fuzz_target!(|data: &[u8]| {
    fs::init("C16");
    if let Some(case) = fs::c16_decode(data) {
        if let Some((sig, msg)) = fs::c16_run(&case) {
            if !fs::is_known("C16", &sig) {
                eprintln!("C16 fuzz failure: {sig}\n{msg}");
                std::process::abort();
            }
        }
    }
});
