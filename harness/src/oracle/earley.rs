//! Earley recogniser over token-kind strings for a plain BNF. Independent of rustemo.
//!
//! Handles ε-productions, cycles and ambiguity (fixpoint completion inside each set).

use crate::spec::{Bnf, Sym};
use std::collections::HashSet;

#[derive(Clone, Copy, PartialEq, Eq, Hash, Debug)]
struct Item {
    nt: usize,
    alt: usize,
    dot: usize,
    origin: usize,
}

pub struct Earley<'a> {
    g: &'a Bnf,
    nullable: Vec<bool>,
}

pub struct Run {
    /// Number of tokens after which the item set became empty (i.e. `w[..dead]` is the
    /// longest viable prefix and `w[dead]` is the first token that cannot continue any
    /// sentence), or None if every prefix is viable.
    pub dead: Option<usize>,
    pub accepted: bool,
    /// terminals that could continue after the longest viable prefix
    pub expected_after_viable: Vec<usize>,
    /// whether end of input would be acceptable after the longest viable prefix
    pub eof_ok_after_viable: bool,
}

impl<'a> Earley<'a> {
    pub fn new(g: &'a Bnf) -> Self {
        Earley { g, nullable: g.nullable() }
    }

    fn close(&self, sets: &mut Vec<Vec<Item>>, seen: &mut Vec<HashSet<Item>>, k: usize) {
        let mut i = 0;
        while i < sets[k].len() {
            let it = sets[k][i];
            i += 1;
            let rhs = &self.g.nts[it.nt].alts[it.alt];
            if it.dot < rhs.len() {
                if let Sym::N(b) = rhs[it.dot] {
                    // predict
                    for (ai, _) in self.g.nts[b].alts.iter().enumerate() {
                        let ni = Item { nt: b, alt: ai, dot: 0, origin: k };
                        if seen[k].insert(ni) {
                            sets[k].push(ni);
                        }
                    }
                    // nullable shortcut (Aycock & Horspool)
                    if self.nullable[b] {
                        let ni = Item { dot: it.dot + 1, ..it };
                        if seen[k].insert(ni) {
                            sets[k].push(ni);
                        }
                    }
                }
            } else {
                // complete
                let o = it.origin;
                let mut j = 0;
                while j < sets[o].len() {
                    let p = sets[o][j];
                    j += 1;
                    let prhs = &self.g.nts[p.nt].alts[p.alt];
                    if p.dot < prhs.len() && prhs[p.dot] == Sym::N(it.nt) {
                        let ni = Item { dot: p.dot + 1, ..p };
                        if seen[k].insert(ni) {
                            sets[k].push(ni);
                        }
                    }
                }
            }
        }
    }

    pub fn run(&self, w: &[usize]) -> Run {
        let n = w.len();
        let mut sets: Vec<Vec<Item>> = vec![vec![]; n + 1];
        let mut seen: Vec<HashSet<Item>> = vec![HashSet::new(); n + 1];
        for (ai, _) in self.g.nts[self.g.start].alts.iter().enumerate() {
            let it = Item { nt: self.g.start, alt: ai, dot: 0, origin: 0 };
            seen[0].insert(it);
            sets[0].push(it);
        }
        let mut dead = None;
        let mut last = 0;
        for k in 0..=n {
            self.close(&mut sets, &mut seen, k);
            last = k;
            if k == n {
                break;
            }
            // scan
            let t = w[k];
            let mut any = false;
            for idx in 0..sets[k].len() {
                let it = sets[k][idx];
                let rhs = &self.g.nts[it.nt].alts[it.alt];
                if it.dot < rhs.len() && rhs[it.dot] == Sym::T(t) {
                    let ni = Item { dot: it.dot + 1, ..it };
                    if seen[k + 1].insert(ni) {
                        sets[k + 1].push(ni);
                    }
                    any = true;
                }
            }
            if !any {
                dead = Some(k);
                break;
            }
        }
        let complete_at = |k: usize| {
            sets[k].iter().any(|it| {
                it.nt == self.g.start
                    && it.origin == 0
                    && it.dot == self.g.nts[it.nt].alts[it.alt].len()
            })
        };
        let accepted = dead.is_none() && complete_at(n);
        let mut exp: Vec<usize> = vec![];
        for it in &sets[last] {
            let rhs = &self.g.nts[it.nt].alts[it.alt];
            if it.dot < rhs.len() {
                if let Sym::T(t) = rhs[it.dot] {
                    if !exp.contains(&t) {
                        exp.push(t);
                    }
                }
            }
        }
        exp.sort();
        Run { dead, accepted, expected_after_viable: exp, eof_ok_after_viable: complete_at(last) }
    }

    pub fn accepts(&self, w: &[usize]) -> bool {
        self.run(w).accepted
    }
}

#[cfg(test)]
mod tests {
    use super::*;
    use crate::spec::NtDef;

    fn g(nts: Vec<(&str, Vec<Vec<Sym>>)>, nterms: usize) -> Bnf {
        Bnf {
            nterms,
            term_names: (0..nterms).map(|i| format!("t{i}")).collect(),
            nts: nts.into_iter().map(|(n, a)| NtDef { name: n.into(), alts: a }).collect(),
            start: 0,
        }
    }

    #[test]
    fn nullable_and_recursion() {
        use Sym::*;
        // S: A S b | ; A: a | ;
        let b = g(vec![("S", vec![vec![N(1), N(0), T(1)], vec![]]), ("A", vec![vec![T(0)], vec![]])], 2);
        let e = Earley::new(&b);
        assert!(e.accepts(&[]));
        assert!(e.accepts(&[1]));
        assert!(e.accepts(&[0, 1]));
        assert!(e.accepts(&[0, 0, 1, 1]));
        assert!(e.accepts(&[1, 1]));
        assert!(!e.accepts(&[0]));
        assert!(!e.accepts(&[1, 0]));
        let r = e.run(&[1, 0, 1]);
        assert_eq!(r.dead, Some(1));
        let r = e.run(&[0, 0]);
        assert_eq!(r.dead, None);
        assert!(!r.accepted);
    }

    #[test]
    fn cyclic() {
        use Sym::*;
        // S: A; A: B | a; B: A;
        let b = g(vec![("S", vec![vec![N(1)]]), ("A", vec![vec![N(2)], vec![T(0)]]), ("B", vec![vec![N(1)]])], 1);
        let e = Earley::new(&b);
        assert!(e.accepts(&[0]));
        assert!(!e.accepts(&[]));
        assert!(!e.accepts(&[0, 0]));
    }
}
