//! Grammar specification model shared by all generators, renderers and oracles.
//!
//! A `GrammarSpec` is the harness's *own* description of a grammar. It is rendered
//! to rustemo grammar text for the real compiler and, independently, lowered to a
//! plain BNF (`Bnf`) for the reference oracles. Nothing here calls into rustemo.

use serde::{Deserialize, Serialize};

#[derive(Clone, Debug, PartialEq, Eq, Hash, Serialize, Deserialize)]
pub enum RecSpec {
    Str(String),
    Regex(String),
}

#[derive(Clone, Copy, Debug, PartialEq, Eq, Hash, Serialize, Deserialize)]
pub enum AssocKw {
    None,
    Left,
    Reduce,
    Right,
    Shift,
}

impl AssocKw {
    pub fn kw(&self) -> Option<&'static str> {
        match self {
            AssocKw::None => None,
            AssocKw::Left => Some("left"),
            AssocKw::Reduce => Some("reduce"),
            AssocKw::Right => Some("right"),
            AssocKw::Shift => Some("shift"),
        }
    }
    /// 0 none, 1 left/reduce, 2 right/shift
    pub fn datum(&self) -> i8 {
        match self {
            AssocKw::None => 0,
            AssocKw::Left | AssocKw::Reduce => 1,
            AssocKw::Right | AssocKw::Shift => 2,
        }
    }
}

#[derive(Clone, Debug, PartialEq, Eq, Hash, Serialize, Deserialize)]
pub struct TermSpec {
    pub name: String,
    pub rec: RecSpec,
    pub prio: Option<u32>,
    pub assoc: AssocKw,
    /// Example texts matched by this terminal (used by sentence renderers).
    pub samples: Vec<String>,
}

impl TermSpec {
    pub fn str(name: &str, s: &str) -> Self {
        TermSpec {
            name: name.into(),
            rec: RecSpec::Str(s.into()),
            prio: None,
            assoc: AssocKw::None,
            samples: vec![s.into()],
        }
    }
    pub fn regex(name: &str, r: &str, samples: &[&str]) -> Self {
        TermSpec {
            name: name.into(),
            rec: RecSpec::Regex(r.into()),
            prio: None,
            assoc: AssocKw::None,
            samples: samples.iter().map(|s| s.to_string()).collect(),
        }
    }
    pub fn is_regex(&self) -> bool {
        matches!(self.rec, RecSpec::Regex(_))
    }
}

#[derive(Clone, Copy, Debug, PartialEq, Eq, Hash, PartialOrd, Ord, Serialize, Deserialize)]
pub enum Sym {
    T(usize),
    N(usize),
}

#[derive(Clone, Copy, Debug, PartialEq, Eq, Hash, Serialize, Deserialize)]
pub enum RepOp {
    Opt,
    Star,
    Plus,
}

#[derive(Clone, Debug, PartialEq, Eq, Hash, Serialize, Deserialize)]
pub struct SymUse {
    pub sym: Sym,
    /// Render a string terminal as an inline string literal instead of its name.
    pub inline: bool,
    /// Use double quotes for the inline literal.
    pub dquote: bool,
    pub rep: Option<(RepOp, Option<usize>)>,
    pub assign: Option<(String, bool)>,
}

impl SymUse {
    pub fn plain(sym: Sym) -> Self {
        SymUse { sym, inline: false, dquote: false, rep: None, assign: None }
    }
}

#[derive(Clone, Debug, PartialEq, Serialize, Deserialize)]
pub enum UserVal {
    Int(u32),
    Bool(bool),
    Str(String),
    Float(String),
}

#[derive(Clone, Debug, Default, PartialEq, Serialize, Deserialize)]
pub struct Meta {
    pub prio: Option<u32>,
    pub assoc: Option<AssocKw>,
    pub nops: bool,
    pub nopse: bool,
    pub kind: Option<String>,
    pub user: Vec<(String, UserVal)>,
}

impl Meta {
    pub fn is_empty(&self) -> bool {
        self.prio.is_none()
            && self.assoc.is_none()
            && !self.nops
            && !self.nopse
            && self.kind.is_none()
            && self.user.is_empty()
    }
    pub fn render(&self) -> String {
        let mut parts: Vec<String> = vec![];
        if let Some(k) = &self.kind {
            parts.push(k.clone());
        }
        if let Some(p) = self.prio {
            parts.push(p.to_string());
        }
        if let Some(a) = self.assoc {
            if let Some(k) = a.kw() {
                parts.push(k.into());
            }
        }
        if self.nops {
            parts.push("nops".into());
        }
        if self.nopse {
            parts.push("nopse".into());
        }
        for (k, v) in &self.user {
            parts.push(format!(
                "{}: {}",
                k,
                match v {
                    UserVal::Int(i) => i.to_string(),
                    UserVal::Bool(b) => b.to_string(),
                    UserVal::Str(s) => format!("'{}'", s),
                    UserVal::Float(f) => f.clone(),
                }
            ));
        }
        if parts.is_empty() {
            String::new()
        } else {
            format!(" {{{}}}", parts.join(", "))
        }
    }
}

#[derive(Clone, Debug, PartialEq, Serialize, Deserialize)]
pub struct AltSpec {
    pub syms: Vec<SymUse>,
    pub meta: Meta,
    /// positions (0..=syms.len()) at which an explicit, redundant `EMPTY` is written; EMPTY
    /// contributes nothing, so `A EMPTY B` is `A B` and `EMPTY EMPTY` is the empty alternative
    #[serde(default)]
    pub empties: Vec<u8>,
}

impl AltSpec {
    pub fn of(syms: Vec<Sym>) -> Self {
        AltSpec { syms: syms.into_iter().map(SymUse::plain).collect(), meta: Meta::default(), empties: vec![] }
    }
}

#[derive(Clone, Debug, PartialEq, Serialize, Deserialize)]
pub struct RuleSpec {
    pub name: String,
    pub annotation: Option<String>,
    pub meta: Meta,
    pub alts: Vec<AltSpec>,
}

#[derive(Clone, Copy, Debug, PartialEq, Eq, Hash, Serialize, Deserialize)]
pub enum LayoutKind {
    /// `Layout: WS*`-style whitespace only (via explicit rule)
    Ws,
    /// whitespace + line comments
    WsLine,
    /// whitespace + line comments + nested block comments (the documented grammar)
    WsLineBlock,
    /// as WsLineBlock but `Layout: LayoutItem+`
    WsLineBlockPlus,
    /// whitespace + a layout item made of TWO tokens (`~` `^`): the layout parser can fail
    /// after it has already shifted something
    WsPair,
}

#[derive(Clone, Debug, PartialEq, Serialize, Deserialize)]
pub struct GrammarSpec {
    pub terms: Vec<TermSpec>,
    pub rules: Vec<RuleSpec>,
    pub layout: Option<LayoutKind>,
}

pub fn escape_str(s: &str, dq: bool) -> String {
    let mut o = String::new();
    for c in s.chars() {
        match c {
            '\\' => o.push_str("\\\\"),
            '\'' if !dq => o.push_str("\\'"),
            '"' if dq => o.push_str("\\\""),
            '\n' => o.push_str("\\n"),
            '\t' => o.push_str("\\t"),
            c => o.push(c),
        }
    }
    o
}

impl GrammarSpec {
    pub fn sym_name(&self, s: Sym) -> &str {
        match s {
            Sym::T(i) => &self.terms[i].name,
            Sym::N(i) => &self.rules[i].name,
        }
    }

    fn render_symuse(&self, u: &SymUse) -> String {
        let mut base = match u.sym {
            Sym::T(i) => {
                let t = &self.terms[i];
                match (&t.rec, u.inline) {
                    (RecSpec::Str(s), true) => {
                        if u.dquote {
                            format!("\"{}\"", escape_str(s, true))
                        } else {
                            format!("'{}'", escape_str(s, false))
                        }
                    }
                    _ => t.name.clone(),
                }
            }
            Sym::N(i) => self.rules[i].name.clone(),
        };
        if let Some((op, sep)) = &u.rep {
            base.push(match op {
                RepOp::Opt => '?',
                RepOp::Star => '*',
                RepOp::Plus => '+',
            });
            if let Some(sep) = sep {
                base.push_str(&format!("[{}]", self.terms[*sep].name));
            }
        }
        if let Some((name, is_bool)) = &u.assign {
            format!("{}{}{}", name, if *is_bool { "?=" } else { "=" }, base)
        } else {
            base
        }
    }

    /// The same grammar with every rule and terminal name in lower case (the style of
    /// examples/clang): a symbol is then spelled like its own snake-case form, so generated
    /// type and action identifiers coincide.
    pub fn lowercased(&self) -> GrammarSpec {
        let mut g = self.clone();
        for r in g.rules.iter_mut() {
            r.name = r.name.to_lowercase();
        }
        for t in g.terms.iter_mut() {
            t.name = t.name.to_lowercase();
        }
        g
    }

    /// Names of the helper rules the documented expansion of every `?`, `*`, `+` use creates
    /// (`X1` for `X+`; `X0` and `X1` for `X*`; `XOpt` for `X?`; X = name of the repeated symbol).
    pub fn helper_names(&self) -> Vec<String> {
        let mut v: Vec<String> = vec![];
        for r in &self.rules {
            for a in &r.alts {
                for u in &a.syms {
                    if let Some((op, _)) = &u.rep {
                        let base = self.sym_name(u.sym).to_string();
                        let names = match op {
                            RepOp::Plus => vec![format!("{base}1")],
                            RepOp::Star => vec![format!("{base}0"), format!("{base}1")],
                            RepOp::Opt => vec![format!("{base}Opt")],
                        };
                        for n in names {
                            if !v.contains(&n) {
                                v.push(n);
                            }
                        }
                    }
                }
            }
        }
        v
    }

    pub fn render_alt(&self, a: &AltSpec) -> String {
        let mut parts: Vec<String> = vec![];
        for i in 0..=a.syms.len() {
            for _ in a.empties.iter().filter(|e| (**e as usize).min(a.syms.len()) == i) {
                parts.push("EMPTY".to_string());
            }
            if let Some(u) = a.syms.get(i) {
                parts.push(self.render_symuse(u));
            }
        }
        if parts.is_empty() {
            parts.push("EMPTY".to_string());
        }
        let body = parts.join(" ");
        format!("{}{}", body, a.meta.render())
    }

    /// Render as rustemo grammar text.
    pub fn render(&self) -> String {
        let mut o = String::new();
        for r in &self.rules {
            if let Some(a) = &r.annotation {
                o.push_str(&format!("@{} ", a));
            }
            o.push_str(&r.name);
            o.push_str(&r.meta.render());
            o.push_str(": ");
            o.push_str(
                &r.alts.iter().map(|a| self.render_alt(a)).collect::<Vec<_>>().join("\n    | "),
            );
            o.push_str(";\n");
        }
        if let Some(l) = self.layout {
            o.push_str(layout_rules(l));
        }
        let lt = self.layout.map(layout_terms).unwrap_or("");
        if !self.terms.is_empty() || !lt.is_empty() {
            o.push_str("terminals\n");
            for t in &self.terms {
                o.push_str(&t.name);
                o.push_str(": ");
                match &t.rec {
                    RecSpec::Str(s) => o.push_str(&format!("'{}'", escape_str(s, false))),
                    RecSpec::Regex(r) => o.push_str(&format!("/{}/", r.replace('/', "\\/"))),
                }
                let mut m: Vec<String> = vec![];
                if let Some(p) = t.prio {
                    m.push(p.to_string());
                }
                if let Some(k) = t.assoc.kw() {
                    m.push(k.into());
                }
                if !m.is_empty() {
                    o.push_str(&format!(" {{{}}}", m.join(", ")));
                }
                o.push_str(";\n");
            }
            o.push_str(lt);
        }
        o
    }

    /// Lower to plain BNF. Only valid for specs without repetition sugar;
    /// (sugar is lowered by `oracle::desugar`).
    pub fn bnf(&self) -> Bnf {
        assert!(self
            .rules
            .iter()
            .all(|r| r.alts.iter().all(|a| a.syms.iter().all(|s| s.rep.is_none()))));
        Bnf {
            nterms: self.terms.len(),
            term_names: self.terms.iter().map(|t| t.name.clone()).collect(),
            nts: self
                .rules
                .iter()
                .map(|r| NtDef {
                    name: r.name.clone(),
                    alts: r.alts.iter().map(|a| a.syms.iter().map(|u| u.sym).collect()).collect(),
                })
                .collect(),
            start: 0,
        }
    }

    pub fn has_sugar(&self) -> bool {
        self.rules.iter().any(|r| r.alts.iter().any(|a| a.syms.iter().any(|s| s.rep.is_some())))
    }
}

pub fn layout_rules(l: LayoutKind) -> &'static str {
    match l {
        LayoutKind::Ws => "Layout: LWs*;\n",
        LayoutKind::WsLine => "Layout: LayoutItem*;\nLayoutItem: LWs | LCommentLine;\n",
        LayoutKind::WsLineBlock => {
            "Layout: LayoutItem*;\nLayoutItem: LWs | LComment;\nLComment: '/*' LCorncs '*/' | LCommentLine;\nLCorncs: LCornc*;\nLCornc: LComment | LNotComment | LWs;\n"
        }
        LayoutKind::WsLineBlockPlus => {
            "Layout: LayoutItem+;\nLayoutItem: LWs | LComment;\nLComment: '/*' LCorncs '*/' | LCommentLine;\nLCorncs: LCornc*;\nLCornc: LComment | LNotComment | LWs;\n"
        }
        LayoutKind::WsPair => "Layout: LayoutItem*;\nLayoutItem: LWs | LTilde LCaret;\n",
    }
}

pub fn layout_terms(l: LayoutKind) -> &'static str {
    match l {
        LayoutKind::Ws => "LWs: /\\s+/;\n",
        LayoutKind::WsLine => "LWs: /\\s+/;\nLCommentLine: /\\/\\/.*/;\n",
        LayoutKind::WsLineBlock | LayoutKind::WsLineBlockPlus => {
            "LOComment: '/*';\nLCComment: '*/';\nLWs: /\\s+/;\nLCommentLine: /\\/\\/.*/;\nLNotComment: /((\\*[^\\/])|[^\\s*\\/]|\\/[^\\*])+/;\n"
        }
        LayoutKind::WsPair => "LWs: /\\s+/;\nLTilde: '~';\nLCaret: '^';\n",
    }
}

#[derive(Clone, Debug, PartialEq, Eq)]
pub struct NtDef {
    pub name: String,
    pub alts: Vec<Vec<Sym>>,
}

/// Plain BNF over terminal indices `0..nterms` and nonterminals `nts`.
#[derive(Clone, Debug, PartialEq, Eq)]
pub struct Bnf {
    pub nterms: usize,
    pub term_names: Vec<String>,
    pub nts: Vec<NtDef>,
    pub start: usize,
}

impl Bnf {
    pub fn nullable(&self) -> Vec<bool> {
        let mut n = vec![false; self.nts.len()];
        loop {
            let mut ch = false;
            for (i, nt) in self.nts.iter().enumerate() {
                if n[i] {
                    continue;
                }
                if nt.alts.iter().any(|a| {
                    a.iter().all(|s| match s {
                        Sym::T(_) => false,
                        Sym::N(j) => n[*j],
                    })
                }) {
                    n[i] = true;
                    ch = true;
                }
            }
            if !ch {
                return n;
            }
        }
    }

    pub fn productive(&self) -> Vec<bool> {
        let mut n = vec![false; self.nts.len()];
        loop {
            let mut ch = false;
            for (i, nt) in self.nts.iter().enumerate() {
                if n[i] {
                    continue;
                }
                if nt.alts.iter().any(|a| {
                    a.iter().all(|s| match s {
                        Sym::T(_) => true,
                        Sym::N(j) => n[*j],
                    })
                }) {
                    n[i] = true;
                    ch = true;
                }
            }
            if !ch {
                return n;
            }
        }
    }

    pub fn reachable(&self) -> Vec<bool> {
        let mut r = vec![false; self.nts.len()];
        let mut st = vec![self.start];
        r[self.start] = true;
        while let Some(i) = st.pop() {
            for a in &self.nts[i].alts {
                for s in a {
                    if let Sym::N(j) = s {
                        if !r[*j] {
                            r[*j] = true;
                            st.push(*j);
                        }
                    }
                }
            }
        }
        r
    }

    /// Minimal yield length of each nonterminal (usize::MAX if unproductive) and the
    /// alternative index achieving it.
    pub fn min_len(&self) -> Vec<(usize, usize)> {
        let mut m = vec![(usize::MAX, 0usize); self.nts.len()];
        loop {
            let mut ch = false;
            for (i, nt) in self.nts.iter().enumerate() {
                for (ai, a) in nt.alts.iter().enumerate() {
                    let mut tot: usize = 0;
                    for s in a {
                        let l = match s {
                            Sym::T(_) => 1,
                            Sym::N(j) => m[*j].0,
                        };
                        tot = tot.saturating_add(l);
                    }
                    if tot < m[i].0 {
                        m[i] = (tot, ai);
                        ch = true;
                    }
                }
            }
            if !ch {
                return m;
            }
        }
    }

    pub fn is_recursive(&self) -> bool {
        // any nonterminal reachable from itself
        let n = self.nts.len();
        for s in 0..n {
            let mut seen = vec![false; n];
            let mut st = vec![s];
            let mut first = true;
            while let Some(i) = st.pop() {
                if i == s && !first {
                    return true;
                }
                first = false;
                for a in &self.nts[i].alts {
                    for sy in a {
                        if let Sym::N(j) = sy {
                            if *j == s {
                                return true;
                            }
                            if !seen[*j] {
                                seen[*j] = true;
                                st.push(*j);
                            }
                        }
                    }
                }
            }
        }
        false
    }

    /// `A =>+ A` exists for some reachable A (cyclic grammar).
    pub fn is_cyclic(&self) -> bool {
        let nul = self.nullable();
        let n = self.nts.len();
        // unit graph: A -> B if A: alpha B beta with alpha, beta nullable
        let mut adj = vec![vec![]; n];
        for (i, nt) in self.nts.iter().enumerate() {
            for a in &nt.alts {
                for (k, s) in a.iter().enumerate() {
                    if let Sym::N(j) = s {
                        let rest_nullable = a.iter().enumerate().all(|(k2, s2)| {
                            k2 == k
                                || match s2 {
                                    Sym::T(_) => false,
                                    Sym::N(j2) => nul[*j2],
                                }
                        });
                        if rest_nullable {
                            adj[i].push(*j);
                        }
                    }
                }
            }
        }
        for s in 0..n {
            let mut seen = vec![false; n];
            let mut st: Vec<usize> = adj[s].clone();
            while let Some(i) = st.pop() {
                if i == s {
                    return true;
                }
                if !seen[i] {
                    seen[i] = true;
                    st.extend(adj[i].iter().copied());
                }
            }
        }
        false
    }

    /// Number of distinct derivations of the empty string per nonterminal, capped at 2.
    /// Requires an acyclic grammar (otherwise may report 2 for cyclic ones).
    pub fn eps_derivations(&self) -> Vec<u8> {
        let n = self.nts.len();
        let nul = self.nullable();
        // iterate: count[i] = sum over alts (all nullable syms) of product count[sym]
        let mut c = vec![0u8; n];
        for _ in 0..(n + 2) {
            let mut nc = vec![0u8; n];
            for (i, nt) in self.nts.iter().enumerate() {
                let mut tot: u32 = 0;
                for a in &nt.alts {
                    let mut p: u32 = 1;
                    for s in a {
                        match s {
                            Sym::T(_) => {
                                p = 0;
                            }
                            Sym::N(j) => {
                                if !nul[*j] {
                                    p = 0;
                                } else {
                                    p = (p * c[*j] as u32).min(2);
                                }
                            }
                        }
                        if p == 0 {
                            break;
                        }
                    }
                    tot = (tot + p).min(2);
                }
                nc[i] = tot as u8;
            }
            if nc == c {
                break;
            }
            c = nc;
        }
        c
    }

    pub fn render(&self) -> String {
        let mut o = String::new();
        for nt in &self.nts {
            o.push_str(&nt.name);
            o.push_str(": ");
            let alts: Vec<String> = nt
                .alts
                .iter()
                .map(|a| {
                    if a.is_empty() {
                        "EMPTY".to_string()
                    } else {
                        a.iter()
                            .map(|s| match s {
                                Sym::T(i) => self.term_names[*i].clone(),
                                Sym::N(i) => self.nts[*i].name.clone(),
                            })
                            .collect::<Vec<_>>()
                            .join(" ")
                    }
                })
                .collect();
            o.push_str(&alts.join(" | "));
            o.push_str("; ");
        }
        o
    }
}

impl GrammarSpec {
    /// Same grammar with all disambiguation meta-data removed (used for "raw" tables).
    pub fn without_meta(&self) -> GrammarSpec {
        let mut s = self.clone();
        for r in s.rules.iter_mut() {
            r.meta = Meta::default();
            for a in r.alts.iter_mut() {
                a.meta = Meta::default();
            }
        }
        for t in s.terms.iter_mut() {
            t.assoc = AssocKw::None;
            t.prio = None;
        }
        s
    }
}
