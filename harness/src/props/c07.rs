//! C07 — LR and GLR parsers built from the same deterministic grammar agree. Differential.

use super::common::*;
use crate::compile::{guarded, has_conflicts, Cfg, TT};
use crate::dynp::{self, RunOpts};
use crate::gen::{self, Cursor, LayoutStyle, Pool};
use crate::runner::{Outcome, Prop, Stats, Tier};
use proptest::prelude::*;
use serde_json::{json, Value};

pub struct C07;

#[derive(Clone, Debug, serde::Serialize, serde::Deserialize)]
pub struct Case {
    pub g: GCase,
    /// 0 = default whitespace skipping, 1..4 = Layout rule templates
    pub mode: u8,
}

fn kind_of(mode: u8) -> Option<crate::spec::LayoutKind> {
    use crate::spec::LayoutKind::*;
    match mode {
        0 => None,
        1 => Some(Ws),
        2 => Some(WsLine),
        3 => Some(WsLineBlock),
        _ => Some(WsLineBlockPlus),
    }
}

fn spec_of(case: &Case) -> crate::spec::GrammarSpec {
    let mut s = case.g.spec.clone();
    s.layout = kind_of(case.mode);
    s
}

fn render(case0: &Case, bnf: &crate::spec::Bnf, ii: usize) -> gen::Rendered {
    let case = &case0.g;
    let tape = &case.tapes[ii];
    let toks = gen::tokens_for(bnf, tape, 10);
    let mut c = Cursor::new(&tape.tape);
    if case0.mode > 0 {
        return gen::render_with_layout(&case.spec.terms, &toks, kind_of(case0.mode), ii % 3 == 2, &mut c);
    }
    let style = match ii % 3 {
        0 => LayoutStyle::Unicode,
        1 => LayoutStyle::Ascii,
        _ => LayoutStyle::Minimal,
    };
    gen::render_tokens(&case.spec.terms, &toks, style, &mut c)
}

impl Prop for C07 {
    type Case = Case;
    fn id(&self) -> &'static str {
        "C07"
    }
    fn strategy(&self, tier: Tier) -> BoxedStrategy<Case> {
        let (nts, inputs) = match tier {
            Tier::Quick => (5, 14..22),
            Tier::Thorough => (8, 24..36),
        };
        let plain = gcase(gen::BnfParams { max_nts: nts, ..gen::BnfParams::lr_small() }, inputs.clone(), 24);
        let uni = gcase(
            gen::BnfParams { max_nts: nts, pool: Pool::Unicode(false), ..gen::BnfParams::lr_small() },
            inputs,
            24,
        );
        // a terminal that may match the empty string (`Sg: /[+-]?/`, as integer_suffix_opt in
        // examples/clang), in positions where a non-empty token always follows it
        let sign = (0usize..3, gen::tapes(8..14, 20)).prop_map(|(k, tapes)| {
            use crate::spec::*;
            let terms = vec![
                TermSpec::regex("Sg", "[+-]?", &["+", "-", "", ""]),
                TermSpec::regex("Num", "\\d+", &["1", "42"]),
                TermSpec::str("Semi", ";"),
                TermSpec::str("LPar", "("),
                TermSpec::str("RPar", ")"),
            ];
            let t = |i: usize| Sym::T(i);
            let n = |i: usize| Sym::N(i);
            let rules = match k {
                0 => vec![
                    RuleSpec { name: "S".into(), annotation: None, meta: Meta::default(), alts: vec![AltSpec::of(vec![n(0), n(1)]), AltSpec::of(vec![n(1)])] },
                    RuleSpec { name: "A".into(), annotation: None, meta: Meta::default(), alts: vec![AltSpec::of(vec![t(0), t(1), t(2)])] },
                ],
                1 => vec![
                    RuleSpec { name: "S".into(), annotation: None, meta: Meta::default(), alts: vec![AltSpec::of(vec![t(0), t(1)]), AltSpec::of(vec![t(3), n(0), t(4)])] },
                ],
                _ => vec![
                    RuleSpec { name: "S".into(), annotation: None, meta: Meta::default(), alts: vec![AltSpec::of(vec![n(1), t(2), n(0)]), AltSpec::of(vec![n(1), t(2)])] },
                    RuleSpec { name: "A".into(), annotation: None, meta: Meta::default(), alts: vec![AltSpec::of(vec![t(0), t(1)]), AltSpec::of(vec![t(3), n(1), t(4)])] },
                ],
            };
            GCase { spec: GrammarSpec { terms, rules, layout: None }, tapes, lines: false, layout_mode: 0 }
        });
        let g = prop_oneof![8 => plain, 4 => uni, 1 => sign.boxed()];
        (g, prop_oneof![4 => Just(0u8), 1 => Just(1u8), 1 => Just(2u8), 1 => Just(3u8), 1 => Just(4u8)])
            .prop_map(|(g, mode)| {
                // the empty-matching family only under default whitespace skipping
                let mode = if g.spec.terms.first().map(|t| t.name == "Sg").unwrap_or(false) { 0 } else { mode };
                Case { g, mode }
            })
            .boxed()
    }
    fn cases(&self, tier: Tier) -> u32 {
        match tier {
            Tier::Quick => 6000,
            Tier::Thorough => 120_000,
        }
    }
    fn rule(&self) -> String {
        "case = generated BNF grammar + input tapes (sentences, mutations, random token strings; \
         ASCII / multi-byte whitespace and newlines; ASCII and multi-byte terminals); scope = the \
         real raw LALR_PAGER table has no multi-action cell (grammar needs no disambiguation); the \
         LR parser (defaults) and the GLR parser (parser_algo(GLR) => LALR_RN) are built from the \
         same text; oracle: lr.is_ok() == glr.is_ok(); on Ok solutions()==1 and after stripping \
         trailing empty-yield children both trees are identical in productions, token kinds, token \
         texts, token spans and node spans (incl. line/column); on Err both report the same \
         position. non-trivial = (grammar, input) accepted with a tree containing an empty node or \
         a right-nulled (elided) child, or rejected at an offset > 0"
            .into()
    }
    fn assumptions(&self) -> Vec<String> {
        vec!["default whitespace skipping and four Layout-rule templates; stored layouts are not compared (GLR trees carry no layout by design), spans are; inputs <= 10 tokens".into()]
    }
    fn describe(&self, case: &Case) -> Value {
        let bnf = case.g.spec.bnf();
        let inputs: Vec<String> = (0..case.g.tapes.len()).map(|i| render(case, &bnf, i).text).collect();
        json!({"grammar": spec_of(case).render(), "mode": case.mode, "inputs": inputs})
    }
    fn check(&self, case: &Case, st: &mut Stats) -> Outcome {
        let spec_l = spec_of(case);
        let spec = &spec_l;
        let bnf = case.g.spec.bnf();
        let text = spec.render();
        st.class(&format!("layout-mode-{}", case.mode));
        let raw = match compile_or_discard(&text, &Cfg::raw(TT::Pager), st) {
            Ok(d) => d,
            Err(Some(_)) => {
                st.discard("compiler-rejects-grammar");
                return Outcome::Pass;
            }
            Err(None) => return Outcome::Pass,
        };
        if has_conflicts(&raw) {
            st.discard("out-of-scope-conflicts");
            return Outcome::Pass;
        }
        let lr_cfg = Cfg::lr();
        let glr_cfg = Cfg::glr();
        let lr = match compile_or_discard(&text, &lr_cfg, st) {
            Ok(d) => d,
            Err(Some(e)) => return Outcome::fail("lr-rejected-in-scope", format!("{e}\n{text}")),
            Err(None) => return Outcome::Pass,
        };
        let glr = match compile_or_discard(&text, &glr_cfg, st) {
            Ok(d) => d,
            Err(Some(e)) => return Outcome::fail("glr-rejected-in-scope", format!("{e}\n{text}")),
            Err(None) => return Outcome::Pass,
        };
        st.class("grammar-in-scope");
        if has_conflicts(&glr) {
            st.class("rn-table-has-multi-action-cells");
        }
        for ii in 0..case.g.tapes.len() {
            let r = render(case, &bnf, ii);
            let inp = &r.text;
            st.sub();
            if install(&lr, &lr_cfg).is_err() {
                return Outcome::Pass;
            }
            dynp::reset_steps(LR_STEPS);
            let a = match guarded(|| dynp::lr_parse(inp, RunOpts::default())) {
                Ok(r) => r,
                Err(p) => return panic_outcome("parse|LR", &p),
            };
            if install(&glr, &glr_cfg).is_err() {
                return Outcome::Pass;
            }
            dynp::reset_steps(GLR_STEPS);
            let b = match guarded(|| dynp::glr_parse(inp, RunOpts::default(), 4, false)) {
                Ok(r) => r,
                Err(p) => return panic_outcome("parse|GLR", &p),
            };
            let ctx = || format!("grammar:\n{text}\ninput: {inp:?}");
            match (&a, &b) {
                (Ok(ta), Ok(ob)) => {
                    if ob.solutions != 1 || ob.trees.len() != 1 {
                        return Outcome::fail(
                            "solutions-not-one",
                            format!("{}\nGLR solutions: {}", ctx(), ob.solutions),
                        );
                    }
                    let sa = strip_real(ta);
                    let sb = strip_real(&ob.trees[0]);
                    // production indexes are identical in both dumps (same grammar text)
                    if let Some((cls, msg)) = tree_diff(&lr, &sa, &sb) {
                        // structural class: with a Layout rule the LR span of a node ending in an
                        // empty child reaches behind the trailing layout while the GLR span of the
                        // same node (first built by a right-nulled reduction) ends at the last token
                        let mut extra = "";
                        if cls == "nonterm-span" && case.mode > 0 {
                            if let Some((x, y)) = first_span_diff(&sa, &sb) {
                                let gap = inp.get(y.end.pos..x.end.pos).unwrap_or("x");
                                let lay_ok = kind_of(case.mode).map(|k| crate::oracle::layoutmodel::is_layout(k, gap)).unwrap_or(false);
                                if x.start == y.start && x.end.pos > y.end.pos && lay_ok {
                                    extra = "|layout-rule|lr-end-behind-trailing-layout";
                                }
                            }
                        }
                        return Outcome::fail(
                            format!("tree|{cls}{extra}"),
                            format!(
                                "{}\n{msg}\nLR : {}\nGLR: {}",
                                ctx(),
                                canon_real(&lr, ta, true),
                                canon_real(&glr, &ob.trees[0], true)
                            ),
                        );
                    }
                    st.class("both-ok");
                    let elided = ob.trees[0].interior_count() != ta.interior_count();
                    if has_empty_node(ta) || elided {
                        if elided {
                            st.class("right-nulled-elision");
                        }
                        st.nontrivial(&format!("{text}\n{inp}"), || {
                            json!({"grammar": text, "input": inp, "lr_tree": canon_real(&lr, ta, true),
                                   "glr_tree": canon_real(&glr, &ob.trees[0], true)})
                        });
                    }
                }
                (Err(ea), Err(eb)) => {
                    if ea.span != eb.span {
                        return Outcome::fail(
                            "error-position",
                            format!("{}\nLR : {:?} {}\nGLR: {:?} {}", ctx(), ea.span, ea.message, eb.span, eb.message),
                        );
                    }
                    st.class("both-err");
                    if ea.span.map(|s| s.start.pos > 0).unwrap_or(false) {
                        st.nontrivial(&format!("{text}\n{inp}"), || {
                            json!({"grammar": text, "input": inp, "error_at": ea.span.map(|s| s.start.pos)})
                        });
                    }
                }
                (Ok(_), Err(e)) => {
                    return Outcome::fail("accept|LR=Ok|GLR=Err", format!("{}\nGLR error: {}", ctx(), e.message))
                }
                (Err(e), Ok(_)) => {
                    return Outcome::fail("accept|LR=Err|GLR=Ok", format!("{}\nLR error: {}", ctx(), e.message))
                }
            }
        }
        dynp::uninstall();
        Outcome::Pass
    }
}
