//! C10 — the default AST carries every content token of the input, in input order.
//! Engine B: the real generated parser + actions (default builder) compiled by rustc; round trip
//! against the generic tree of the same input obtained through engine A.

use crate::compile::{compile, guarded, has_conflicts, Algo, Cfg, CompileErr};
use crate::dynp::{self, Node, RunOpts};
use crate::engine_b::{BConfig, GenResult, Scratch};
use crate::gen::{self, Cursor, InputTape, LayoutStyle};
use crate::props::common::install;
use crate::runner::{batch_runner, report_batch, BatchFailure, RunResult, Stats, Tier};
use crate::spec::*;
use proptest::strategy::{Strategy, ValueTree};
use rustemo_compiler::verif::Dump;
use serde::{Deserialize, Serialize};
use serde_json::json;
use std::path::Path;
use std::time::Instant;

#[derive(Clone, Debug, Serialize, Deserialize)]
pub struct Case {
    pub tape: Vec<u16>,
    pub glr: bool,
    pub loc_info: bool,
    pub inputs: Vec<InputTape>,
    /// the tape is read by `gen::build_rec` (recursive type shapes) instead of `gen::build_ast`
    #[serde(default)]
    pub rec: bool,
    /// LR parser generated over the right-nulled table (LALR_RN)
    #[serde(default)]
    pub rn_table: bool,
}

pub fn spec_of(c: &Case) -> GrammarSpec {
    if c.rec {
        gen::build_rec(&c.tape)
    } else {
        gen::build_ast(&c.tape)
    }
}

fn bcfg(c: &Case) -> BConfig {
    BConfig { glr: c.glr, builder: 0, arrays: false, loc_info: c.loc_info, fancy: false, custom_lexer: false, rn_table: c.rn_table , no_skip_ws: false }
}

pub fn inputs_of(c: &Case, spec: &GrammarSpec) -> Vec<String> {
    let bnf = crate::oracle::desugar::desugar(spec).bnf;
    c.inputs
        .iter()
        .enumerate()
        .map(|(ii, tape)| {
            let mut t2 = tape.clone();
            if ii % 3 != 1 {
                t2.kind = 0; // sentences; every third input is a mutation (often a non-sentence)
            }
            // every second input with a deep derivation budget (optionals inside the statements of
            // a list are chosen at depth 7 and below)
            let toks = if ii % 2 == 1 && t2.kind == 0 { gen::sentence_deep(&bnf, &t2, 11, 60) } else { gen::tokens_for(&bnf, &t2, 14) };
            let mut cur = Cursor::new(&tape.tape);
            gen::render_tokens(&spec.terms, &toks, if ii % 2 == 0 { LayoutStyle::Ascii } else { LayoutStyle::Minimal }, &mut cur).text
        })
        .collect()
}

/// string literals of a Debug rendering, in order
fn debug_strings(s: &str) -> Vec<String> {
    let mut out = vec![];
    let cs: Vec<char> = s.chars().collect();
    let mut i = 0;
    while i < cs.len() {
        if cs[i] == '"' {
            let mut j = i + 1;
            let mut lit = String::new();
            while j < cs.len() && cs[j] != '"' {
                if cs[j] == '\\' && j + 1 < cs.len() {
                    j += 1;
                }
                lit.push(cs[j]);
                j += 1;
            }
            out.push(lit);
            i = j + 1;
        } else {
            i += 1;
        }
    }
    out
}

fn count_word(s: &str, w: &str) -> usize {
    let mut n = 0;
    let b: Vec<char> = s.chars().collect();
    let wv: Vec<char> = w.chars().collect();
    let mut i = 0;
    let mut in_str = false;
    while i < b.len() {
        if b[i] == '"' {
            in_str = !in_str;
        }
        if !in_str
            && i + wv.len() <= b.len()
            && b[i..i + wv.len()] == wv[..]
            && (i == 0 || !b[i - 1].is_alphanumeric())
            && (i + wv.len() == b.len() || !b[i + wv.len()].is_alphanumeric())
        {
            n += 1;
        }
        i += 1;
    }
    n
}

/// (content token texts in input order, number of EMPTY reductions of Option-typed nonterminals,
///  shape classes) from the generic tree
fn expectations(d: &Dump, spec: &GrammarSpec, t: &Node) -> (Vec<String>, usize, Vec<&'static str>) {
    let mut toks = vec![];
    let mut nones = 0;
    let mut classes: Vec<&'static str> = vec![];
    // Option-typed: `X?` helpers that are not bound by ?=, and plain rules of the form
    // `<non-empty> | EMPTY` (optional struct)
    let bool_bound: Vec<String> = spec
        .rules
        .iter()
        .flat_map(|r| r.alts.iter())
        .flat_map(|a| a.syms.iter())
        .filter(|u| matches!(u.assign, Some((_, true))) && matches!(u.rep, Some((RepOp::Opt, _))))
        .map(|u| format!("{}Opt", spec.sym_name(u.sym)))
        .collect();
    let opt_rules: Vec<&str> = spec
        .rules
        .iter()
        .filter(|r| r.annotation.is_none() && r.alts.iter().any(|a| a.syms.is_empty()) && r.alts.iter().any(|a| !a.syms.is_empty()))
        .map(|r| r.name.as_str())
        .collect();
    fn walk(d: &Dump, n: &Node, toks: &mut Vec<String>, nones: &mut usize, bool_bound: &[String], opt_rules: &[&str], classes: &mut Vec<&'static str>, spec: &GrammarSpec) {
        match n {
            Node::Term { kind, text, .. } => {
                if d.terminals[*kind].has_content {
                    toks.push(text.clone());
                }
            }
            Node::NonTerm { prod, children, .. } => {
                let name = &d.nonterminals[d.productions[*prod].nonterminal].name;
                if children.is_empty() {
                    // `X?` and `X*` helpers are Option-typed (`X*` is Option<Vec<X>>: None when there is
                    // no match, as the repository's own zero_or_more snapshot shows)
                    let is_opt_helper = (name.ends_with("Opt") || name.ends_with('0'))
                        && !spec.rules.iter().any(|r| &r.name == name);
                    // (`?=` is accepted by the grammar language but the generator treats it like `=`:
                    // the field keeps the Option type; the documentation does not define `?=`, so
                    // the generator only binds it to a content-free token and nothing is asserted
                    // about it)
                    let _ = bool_bound;
                    if is_opt_helper || opt_rules.contains(&name.as_str()) {
                        *nones += 1;
                    }
                }
                if let Some(r) = spec.rules.iter().find(|r| &r.name == name) {
                    if r.annotation.as_deref() == Some("vec") && children.len() >= 2 {
                        // recursion direction of this @vec rule
                        let left = matches!(&children[0], Node::NonTerm { prod: p2, .. } if &d.nonterminals[d.productions[*p2].nonterminal].name == name);
                        let c = if left { "vec-left" } else { "vec-right" };
                        if !classes.contains(&c) {
                            classes.push(c);
                        }
                    }
                }
                for c in children {
                    walk(d, c, toks, nones, bool_bound, opt_rules, classes, spec);
                }
            }
        }
    }
    walk(d, t, &mut toks, &mut nones, &bool_bound, &opt_rules, &mut classes, spec);
    if nones > 0 {
        classes.push("opt-absent");
    }
    (toks, nones, classes)
}

fn driver(c: &Case, inputs: &[String]) -> String {
    let mut s = String::from("use super::g::*;\nuse rustemo::Parser;\npub fn run() -> String {\n    let mut out = String::new();\n");
    s.push_str(&format!("    let inputs: [&str; {}] = [{}];\n", inputs.len(), inputs.iter().map(|i| format!("{i:?}")).collect::<Vec<_>>().join(", ")));
    if c.glr {
        s.push_str("    for (k, inp) in inputs.iter().enumerate() {\n        let r = std::panic::catch_unwind(|| match GParser::new().parse(inp) {\n            Ok(f) => match f.get_first_tree() { Some(t) => { let mut b = DefaultBuilder::new(); let a = t.build::<_, State>(&mut b); format!(\"P {k} OK {} {:?}\", f.solutions(), a) } None => format!(\"P {k} NOTREE\") },\n            Err(_) => format!(\"P {k} ERR\"),\n        });\n        out.push_str(&r.unwrap_or(format!(\"P {k} PANIC\")));\n        out.push('\\n');\n    }\n");
    } else {
        // one parser instance is used for all inputs (valid and invalid interleaved), as a user
        // who keeps a parser around would do
        s.push_str("    let parser = std::panic::AssertUnwindSafe(GParser::new());\n    for (k, inp) in inputs.iter().enumerate() {\n        let r = std::panic::catch_unwind(|| match parser.parse(inp) {\n            Ok(a) => format!(\"P {k} OK 1 {:?}\", a),\n            Err(_) => format!(\"P {k} ERR\"),\n        });\n        out.push_str(&r.unwrap_or(format!(\"P {k} PANIC\")));\n        out.push('\\n');\n    }\n");
    }
    s.push_str("    out\n}\n");
    s
}

fn gen_cases(seed: u64, batch: usize, ngrammars: usize) -> Vec<Case> {
    let mut runner = batch_runner(seed, "C10", batch);
    let mut v = vec![];
    for g in 0..ngrammars {
        let tape = gen::g_ast().new_tree(&mut runner).unwrap().current();
        let inputs = gen::tapes(8..12, 40).new_tree(&mut runner).unwrap().current();
        for glr in [false, true] {
            v.push(Case { tape: tape.clone(), glr, loc_info: (g + glr as usize) % 2 == 0, inputs: inputs.clone(), rec: false, rn_table: false });
        }
    }
    // recursive type shapes: the element of a vector / optional refers back to it (boxed
    // elements, both recursion directions)
    for g in 0..ngrammars * 2 {
        let tape = gen::g_rec().new_tree(&mut runner).unwrap().current();
        let inputs = gen::tapes(8..12, 40).new_tree(&mut runner).unwrap().current();
        let glr = g % 2 == 1;
        v.push(Case { tape, glr, loc_info: g % 8 == 2, inputs, rec: true, rn_table: g % 4 == 0 });
    }
    v
}

pub fn run(tier: Tier, seed: u64, replay: Option<&Path>) -> RunResult {
    crate::compile::install_panic_hook();
    let t0 = Instant::now();
    let mut st = Stats::default();
    let mut failures: Vec<BatchFailure> = vec![];
    let (batches, per_batch) = match tier {
        Tier::Quick => (1, 24),
        Tier::Thorough => (12, 30),
    };
    let mut all: Vec<Vec<Case>> = vec![];
    let load = |p: &Path| -> Option<Case> {
        std::fs::read_to_string(p).ok().and_then(|s| serde_json::from_str::<crate::runner::ReplayFile>(&s).ok()).and_then(|rf| serde_json::from_value::<Case>(rf.case).ok())
    };
    if let Some(p) = replay {
        match load(p) {
            Some(c) => all.push(vec![c]),
            None => return RunResult { exit: 2, lines: vec![] },
        }
    } else {
        for b in 0..batches {
            let mut v = gen_cases(seed, b, per_batch);
            if b == 0 {
                if let Ok(rd) = std::fs::read_dir(crate::runner::verif_root().join("regress")) {
                    let mut files: Vec<_> = rd.flatten().map(|e| e.path()).filter(|p| p.file_name().map(|n| n.to_string_lossy().starts_with("C10-")).unwrap_or(false)).collect();
                    files.sort();
                    for f in files {
                        if let Some(c) = load(&f) {
                            v.push(c);
                        }
                    }
                }
            }
            all.push(v);
        }
    }
    let mut lines = vec![];
    for (b, batch) in all.iter().enumerate() {
        let mut sc = Scratch::new(&format!("c10-{b}"));
        // module, case, text, per-input expectation (None = engine A rejects)
        #[allow(clippy::type_complexity)]
        let mut mods: Vec<(String, &Case, String, Vec<String>, Vec<Option<(Vec<String>, usize, Vec<&'static str>)>>)> = vec![];
        for (i, c) in batch.iter().enumerate() {
            st.evaluations += 1;
            let spec = spec_of(c);
            let text = spec.render();
            // reference generic trees always come from the LR parser (the grammar is deterministic)
            let cfg = Cfg { algo: Algo::LR, ..Cfg::lr() };
            let d = match compile(&text, &cfg) {
                Ok(d) if !has_conflicts(&d) => d,
                Ok(_) => {
                    st.discard("conflicts");
                    continue;
                }
                Err(CompileErr::Err(_)) => {
                    st.discard("compiler-rejects");
                    continue;
                }
                Err(CompileErr::Panic(_)) => {
                    st.discard("compiler-panic(C16)");
                    continue;
                }
            };
            let m = format!("m{i}");
            match sc.generate(&m, &text, &bcfg(c)) {
                GenResult::Ok => {}
                _ => {
                    st.discard("generator-rejects");
                    continue;
                }
            }
            let inputs = inputs_of(c, &spec);
            let mut exps = vec![];
            if install(&d, &cfg).is_ok() {
                for inp in &inputs {
                    dynp::reset_steps(200_000);
                    exps.push(match guarded(|| dynp::lr_parse(inp, RunOpts::default())) {
                        Ok(Ok(t)) => Some(expectations(&d, &spec, &t)),
                        _ => None,
                    });
                }
                dynp::uninstall();
            }
            sc.write_mod(&m, &bcfg(c), Some(&driver(c, &inputs)));
            mods.push((m, c, text, inputs, exps));
        }
        let (dropped, blocks) = match sc.build_and_run() {
            Ok(x) => x,
            Err(e) => {
                eprintln!("engine B infrastructure: {e}");
                lines.push(format!("inconclusive: {e}"));
                return RunResult { exit: 2, lines };
            }
        };
        for (m, c, text, inputs, exps) in &mods {
            if dropped.contains_key(m) {
                st.discard("generated-code-does-not-compile(C11)");
                continue;
            }
            let algo = if c.glr { "GLR" } else { "LR" };
            st.class(&format!("module-{algo}-loc{}", c.loc_info as u8));
            let got: Vec<&str> = blocks.get(m).map(|b| b.lines().filter(|l| !l.is_empty()).collect()).unwrap_or_default();
            for (k, inp) in inputs.iter().enumerate() {
                let exp = match exps.get(k) {
                    Some(Some(e)) => e,
                    _ => continue,
                };
                st.sub();
                let prefix = format!("P {k} ");
                let line = got.iter().find(|l| l.starts_with(&prefix)).copied().unwrap_or("");
                let rest = &line[prefix.len().min(line.len())..];
                let mk = |sig: String, msg: String| BatchFailure {
                    sig,
                    msg: format!("module {m} ({algo}, loc_info={})\ngrammar:\n{text}\ninput: {inp:?}\n{msg}", c.loc_info),
                    case: serde_json::to_value(c).unwrap(),
                    description: json!({"grammar": text, "algo": algo, "loc_info": c.loc_info, "input": inp}),
                };
                let shapes = exp.2.join("+");
                if !rest.starts_with("OK ") {
                    failures.push(mk(format!("sentence-not-parsed|{algo}|{}", rest.split(' ').next().unwrap_or("")), format!("generated parser: {line}")));
                    break;
                }
                let ast = rest[3..].splitn(2, ' ').nth(1).unwrap_or("");
                let strings = debug_strings(ast);
                if strings != exp.0 {
                    let cls = if strings.len() < exp.0.len() {
                        "missing"
                    } else if strings.len() > exp.0.len() {
                        "dup"
                    } else {
                        let mut a = strings.clone();
                        let mut b = exp.0.clone();
                        a.sort();
                        b.sort();
                        if a == b { "order" } else { "changed" }
                    };
                    failures.push(mk(
                        format!("{cls}|{algo}|{shapes}"),
                        format!("content tokens of the input: {:?}\nstrings in the AST        : {:?}\nAST: {ast}", exp.0, strings),
                    ));
                    break;
                }
                if !c.loc_info {
                    let n = count_word(ast, "None");
                    if n != exp.1 {
                        failures.push(mk(
                            format!("none-count|{algo}"),
                            format!("{} optional parts are absent in the input but the AST has {n} None\nAST: {ast}", exp.1),
                        ));
                        break;
                    }
                }
                if exp.0.len() >= 3 && !exp.2.is_empty() {
                    st.nontrivial(&format!("{text}\n{algo}\n{}\n{inp}", c.loc_info), || {
                        json!({"grammar": text, "algo": algo, "loc_info": c.loc_info, "input": inp,
                               "content_tokens": exp.0, "shapes": exp.2, "ast": ast.chars().take(400).collect::<String>()})
                    });
                }
                for s in &exp.2 {
                    st.class(&format!("sentence-through-{s}"));
                }
            }
        }
        sc.cleanup();
    }
    report_batch(
        "C10",
        tier,
        seed,
        st,
        failures,
        "case = generated conflict-free AST-shape-rich grammar (enum / struct / ref / @vec in both recursion directions with and without separators and EMPTY base / ?*+ sugar / optional structs / recursive types / named and ?= assignments / production kinds) x {LR, GLR (first tree replayed through the generated DefaultBuilder)} x builder_loc_info, 8..11 inputs each (derived sentences with mutated, often invalid, inputs interleaved; one LR parser instance is reused for all of them). The real generated parser and actions are compiled by rustc and parse each sentence; the sequence of string literals in `{:?}` of the returned AST must equal the texts of the content-token (regex terminal) leaves of the generic tree of the same input (engine A), i.e. every content token once and in input order (so vectors are in input order); with loc_info off the number of `None` must equal the number of absent optionals. non-trivial = sentence with >= 3 content tokens passing through a @vec rule or an absent optional".into(),
        vec![
            "content tokens are digits / lower-case words, so they cannot be confused with identifiers in the Debug rendering".into(),
            "generated modules that do not compile are C11's subject (counted as discards)".into(),
        ],
        json!({}),
        t0,
        lines,
        0,
    )
}
