//! Shared code of the libFuzzer targets (engine F) and of `vcheck fuzz2replay`.

use crate::compile::{compile, guarded, install_panic_hook, panic_sig, Algo, Cfg};
use crate::dynp::{self, BadLexMode, RunOpts};
use crate::gen::{self, Pool};
use crate::props::c16;
use crate::spec::GrammarSpec;
use proptest::strategy::{Strategy, ValueTree};
use rustemo_compiler::verif::Dump;
use std::rc::Rc;
use std::sync::OnceLock;

static KNOWN: OnceLock<Vec<(String, String)>> = OnceLock::new();

pub fn init(_prop: &str) {
    static ONCE: OnceLock<()> = OnceLock::new();
    ONCE.get_or_init(|| {
        install_panic_hook();
        let k = crate::runner::load_known();
        let _ = KNOWN.set(k.findings.iter().map(|f| (f.property.clone(), f.signature.clone())).collect());
    });
}

pub fn is_known(prop: &str, sig: &str) -> bool {
    KNOWN.get().map(|k| k.iter().any(|(p, s)| p == prop && s == sig)).unwrap_or(false)
}

// ---------------------------------------------------------------------------------------
// C16

pub fn c16_decode(data: &[u8]) -> Option<c16::Case> {
    if data.len() < 2 {
        return None;
    }
    let b0 = data[0];
    let b1 = data[1];
    let text = String::from_utf8_lossy(&data[2..]).to_string();
    if text.len() > 1500 {
        return None;
    }
    Some(c16::Case {
        base: c16::Base::Raw(text),
        mutations: vec![],
        glr: b0 & 1 == 1,
        table: (b0 >> 1) & 3,
        ps: b0 & 8 != 0,
        pse: b0 & 16 != 0,
        builder: (b0 >> 5) % 3,
        arrays: b1 & 1 == 1,
        custom_lexer: b1 & 2 != 0,
        dot: b1 & 4 != 0,
    })
}

pub fn c16_run(case: &c16::Case) -> Option<(String, String)> {
    use crate::runner::{Outcome, Prop, Stats};
    let mut st = Stats { frozen: true, ..Stats::default() };
    match c16::C16.check(case, &mut st) {
        Outcome::Pass => None,
        Outcome::Fail { sig, msg } => Some((sig, msg)),
    }
}

// ---------------------------------------------------------------------------------------
// C15

pub struct PoolEntry {
    pub spec: GrammarSpec,
    pub lr: Option<Rc<Dump>>,
    pub glr: Option<Rc<Dump>>,
    pub cyclic: bool,
    /// 0 = default whitespace skipping, 2 = Layout rule (whitespace, line and block comments)
    pub layout_mode: u8,
}

thread_local! {
    static POOL: std::cell::RefCell<Option<Vec<PoolEntry>>> = const { std::cell::RefCell::new(None) };
}

fn build_pool() -> Vec<PoolEntry> {
    let seed: u64 = std::env::var("VERIF_SEED").ok().and_then(|s| s.parse().ok()).unwrap_or(1);
    let mut runner = crate::runner::batch_runner(seed, "C15-fuzz-pool", 0);
    let mut v = vec![];
    let mut k = 0;
    while v.len() < 64 && k < 400 {
        k += 1;
        let pool = [Pool::Plain, Pool::Unicode(true), Pool::Overlap][k % 3];
        let mut spec = gen::g_bnf(gen::BnfParams { ambiguous_ok: true, pool, ..gen::BnfParams::lr_small() }).new_tree(&mut runner).unwrap().current();
        let layout_mode = if k % 4 == 3 { 2 } else { 0 };
        if layout_mode != 0 {
            spec.layout = Some(crate::spec::LayoutKind::WsLineBlock);
        }
        let text = spec.render();
        let lr = compile(&text, &Cfg::lr()).ok().filter(|d| !crate::compile::has_conflicts(d));
        // the recorded LR reduction-loop finding needs forced resolution; the pool keeps only
        // grammars whose raw table is conflict free for LR, so every LR hang here is new
        let lr = match (&lr, compile(&text, &Cfg::raw(crate::compile::TT::Pager))) {
            (Some(_), Ok(raw)) if !crate::compile::has_conflicts(&raw) => lr,
            _ => None,
        };
        let glr = compile(&text, &Cfg::glr()).ok();
        if lr.is_none() && glr.is_none() {
            continue;
        }
        let cyclic = spec.bnf().is_cyclic();
        v.push(PoolEntry { spec, lr, glr, cyclic, layout_mode });
    }
    v
}

/// decoded fuzz input: (pool index, glr, lexer mode (0 = default), input)
pub fn c15_decode(data: &[u8]) -> Option<(usize, bool, u8, u16, String)> {
    if data.len() < 4 {
        return None;
    }
    let input = String::from_utf8_lossy(&data[4..]).to_string();
    Some((data[0] as usize % 64, data[1] & 1 == 1, data[2] % 5, data[3] as u16 * 257, input))
}

pub fn c15_run(data: &[u8]) -> Option<(String, String)> {
    let (idx, glr, lexmode, k, input) = c15_decode(data)?;
    POOL.with(|p| {
        if p.borrow().is_none() {
            *p.borrow_mut() = Some(build_pool());
        }
        let pool = p.borrow();
        let pool = pool.as_ref().unwrap();
        if pool.is_empty() {
            return None;
        }
        let e = &pool[idx % pool.len()];
        let (d, cfg, algo) = match (glr, &e.glr, &e.lr) {
            (true, Some(d), _) => (d, Cfg::glr(), "GLR"),
            (_, _, Some(d)) => (d, Cfg::lr(), "LR"),
            (_, Some(d), None) => (d, Cfg::glr(), "GLR"),
            _ => return None,
        };
        let is_glr = algo == "GLR";
        // GLR work is polynomial in the token count: keep GLR inputs short
        let max_chars = if is_glr { 24 } else { 200 };
        let input: String = input.chars().take(max_chars).collect();
        if crate::props::common::install(d, &cfg).is_err() {
            return None;
        }
        dynp::reset_steps(if is_glr { 2_000_000 } else { 100_000 });
        let nterms = d.terminals.len();
        let (lexer, r) = if lexmode == 0 {
            (
                "default-lexer".to_string(),
                if is_glr {
                    guarded(|| dynp::glr_parse_forest(&input, RunOpts::default()).map(|_| ()))
                } else {
                    guarded(|| dynp::lr_parse(&input, RunOpts::default()).map(|_| ()))
                },
            )
        } else {
            let mode = match lexmode {
                1 => BadLexMode::FixedKind(1 + crate::gen::pick(k, nterms.max(2) - 1)),
                2 => BadLexMode::Cycle,
                3 => BadLexMode::EarlyStop,
                _ => BadLexMode::Nothing,
            };
            let name = format!("{mode:?}");
            (
                format!("custom-lexer-{}", name.split('(').next().unwrap_or("")),
                if is_glr {
                    guarded(|| dynp::glr_parse_badlex(&input, mode).map(|_| ()))
                } else {
                    guarded(|| dynp::lr_parse_badlex(&input, mode).map(|_| ()))
                },
            )
        };
        dynp::uninstall();
        match r {
            Ok(_) => None,
            Err(p) => {
                let ctx = format!("grammar:\n{}\nalgo {algo} lexer {lexer}\ninput: {input:?}", e.spec.render());
                if crate::props::common::is_step_panic(&p) {
                    Some((format!("hang|{algo}|conflict-free-grammar"), format!("step budget exceeded\n{ctx}")))
                } else {
                    Some((format!("panic|{algo}|{lexer}|{}", panic_sig(&p)), format!("panic at {}:{}: {}\n{ctx}", p.file, p.line, p.message)))
                }
            }
        }
    })
}

/// Replay JSON (C15 case) for a crashing fuzz input.
pub fn c15_replay_case(data: &[u8]) -> Option<serde_json::Value> {
    let (idx, glr, lexmode, k, input) = c15_decode(data)?;
    let pool = build_pool();
    if pool.is_empty() {
        return None;
    }
    let e = &pool[idx % pool.len()];
    let use_glr = match (glr, &e.glr, &e.lr) {
        (true, Some(_), _) => true,
        (_, _, Some(_)) => false,
        _ => true,
    };
    let input: String = input.chars().take(if use_glr { 24 } else { 200 }).collect();
    let case = crate::props::c15::Case {
        g: crate::props::common::GCase { spec: { let mut s = e.spec.clone(); s.layout = None; s }, tapes: vec![], lines: false, layout_mode: 0 },
        glr: use_glr,
        ps: false,
        pse: true,
        partial: false,
        raw_inputs: vec![input],
        meta_tape: vec![],
        mutations: vec![],
        badlex: if lexmode == 0 { vec![] } else { vec![(lexmode - 1, k)] },
        layout_mode: e.layout_mode,
        generated: None,
    };
    let _ = Algo::LR;
    serde_json::to_value(case).ok()
}
