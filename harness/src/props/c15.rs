//! C15 — parsing is total: any input and lexer give Ok or Err, never a panic or hang.
//! Generated grammars x arbitrary strings x {default lexer, custom lexers that ignore the
//! expected set}; non-termination is detected by a deterministic step budget.

use super::common::*;
use crate::compile::{compile, guarded, has_conflicts, panic_sig, Algo, Cfg, CompileErr, PanicInfo};
use crate::dynp::{self, BadLexMode, RunOpts};
use crate::gen::{self, pick, Cursor, LayoutStyle, Pool};
use crate::runner::{Outcome, Prop, Stats, Tier};
use crate::spec::*;
use proptest::prelude::*;
use serde::{Deserialize, Serialize};
use serde_json::{json, Value};

pub struct C15;

#[derive(Clone, Debug, Serialize, Deserialize)]
pub struct Case {
    pub g: GCase,
    pub glr: bool,
    pub ps: bool,
    pub pse: bool,
    pub partial: bool,
    pub raw_inputs: Vec<String>,
    /// disambiguation meta-data sprinkled over the grammar (LR only; empty = none)
    #[serde(default)]
    pub meta_tape: Vec<u16>,
    pub mutations: Vec<(u16, u16, u16)>,
    pub badlex: Vec<(u8, u16)>,
    /// 0 = default whitespace skipping, 1..3 = Layout rule (whitespace + comments templates)
    #[serde(default)]
    pub layout_mode: u8,
    /// leg 2: the parser is the GENERATED one (real rcomp output compiled by rustc, generic
    /// builder) in this table layout; the search leg never sets it, a replay of a leg-2 failure does
    #[serde(default)]
    pub generated: Option<GenLeg>,
}

#[derive(Clone, Copy, Debug, Serialize, Deserialize, PartialEq, Eq)]
pub struct GenLeg {
    pub arrays: bool,
    /// generated with `fancy_regex(true)` (recognisers use the fancy-regex engine, whose
    /// `find` can fail at run time, e.g. with BacktrackLimitExceeded)
    #[serde(default)]
    pub fancy: bool,
}

fn kind_of(mode: u8) -> Option<LayoutKind> {
    match mode {
        0 => None,
        1 => Some(LayoutKind::WsLine),
        2 => Some(LayoutKind::WsLineBlock),
        _ => Some(LayoutKind::WsLineBlockPlus),
    }
}

pub const C15_LR_STEPS: u64 = 100_000;
pub const C15_GLR_STEPS: u64 = 2_000_000;

const SPLICE: &[&str] = &["\u{0}", "\u{7f}", "é", "→", "中", "\u{feff}", "\u{1f600}", "\r", "\u{2028}", "a\u{301}", "\t", "\\", "\"", "\u{85}"];

pub fn inputs_of(c: &Case) -> Vec<String> {
    let bnf = c.g.spec.bnf();
    let mut v: Vec<String> = vec![];
    for (ii, tape) in c.g.tapes.iter().enumerate() {
        let toks = gen::tokens_for(&bnf, tape, 12);
        let mut cur = Cursor::new(&tape.tape);
        if c.layout_mode > 0 && ii % 2 == 1 {
            v.push(gen::render_with_layout(&c.g.spec.terms, &toks, kind_of(c.layout_mode), ii % 3 == 0, &mut cur).text);
            continue;
        }
        let style = if ii % 2 == 0 { LayoutStyle::Unicode } else { LayoutStyle::Minimal };
        v.push(gen::render_tokens_sep(&c.g.spec.terms, &toks, style, &mut cur, ii % 3 != 0).text);
    }
    // character level mutations of rendered inputs (kept valid UTF-8)
    let base = v.clone();
    for (k, (which, at, what)) in c.mutations.iter().enumerate() {
        if base.is_empty() {
            break;
        }
        let s = &base[pick(*which, base.len())];
        let chars: Vec<char> = s.chars().collect();
        let i = pick(*at, chars.len() + 1);
        let mut out: String = chars[..i].iter().collect();
        match k % 3 {
            0 => {
                out.push_str(SPLICE[pick(*what, SPLICE.len())]);
                out.extend(chars[i..].iter());
            }
            1 => {
                // delete one char
                out.extend(chars[(i + 1).min(chars.len())..].iter());
            }
            _ => {
                // duplicate the tail
                out.extend(chars[i..].iter());
                out.extend(chars[i..].iter());
            }
        }
        v.push(out);
    }
    v.extend(c.raw_inputs.iter().cloned());
    v
}

pub fn spec_of(c: &Case) -> GrammarSpec {
    let mut s = c.g.spec.clone();
    if !c.glr && !c.meta_tape.is_empty() {
        let mut cur = Cursor::new(&c.meta_tape);
        gen::sprinkle_meta(&mut s, &mut cur, true);
    }
    s.layout = kind_of(c.layout_mode);
    s
}

/// Does the table contain, for some lookahead, a cycle of states connected by forced EMPTY
/// reductions (state q reduces an empty production on x and the goto leads, possibly through
/// more such states, back to q)? Such a table loops forever without consuming input.
pub fn empty_reduction_cycle(d: &rustemo_compiler::verif::Dump) -> bool {
    use rustemo_compiler::verif::DAction;
    let n = d.states.len();
    for x in 0..d.terminals.len() {
        let next: Vec<Option<usize>> = (0..n)
            .map(|q| match d.states[q].actions[x].first() {
                Some(DAction::Reduce(p, 0)) if d.states[q].actions[x].len() == 1 => {
                    d.states[q].gotos[d.productions[*p].nonterminal]
                }
                _ => None,
            })
            .collect();
        for s0 in 0..n {
            let mut q = s0;
            for _ in 0..=n {
                match next[q] {
                    Some(t) => {
                        q = t;
                        if q == s0 {
                            return true;
                        }
                    }
                    None => break,
                }
            }
        }
    }
    false
}

fn badmode(m: u8, k: u16, nterms: usize) -> BadLexMode {
    match m % 4 {
        0 => BadLexMode::FixedKind(1 + pick(k, nterms.max(2) - 1)),
        1 => BadLexMode::Cycle,
        2 => BadLexMode::EarlyStop,
        _ => BadLexMode::Nothing,
    }
}

fn fail_panic(algo: &str, lexer: &str, p: &PanicInfo, forced: bool, ctx: String) -> Outcome {
    if is_step_panic(p) {
        // structural class: the grammar is not LR / not deterministic and its conflicts were
        // resolved by disambiguation (priorities, associativity, prefer-shift settings)
        Outcome::fail(
            format!(
                "hang|{algo}|{}",
                if forced { "conflicts-resolved-by-disambiguation" } else { "conflict-free-grammar" }
            ),
            format!("step budget exceeded (non-termination), lexer {lexer}\n{ctx}"),
        )
    } else {
        Outcome::fail(
            format!("panic|{algo}|{lexer}|{}", panic_sig(p)),
            format!("panic at {}:{}: {}\n{ctx}", p.file, p.line, p.message),
        )
    }
}

impl Prop for C15 {
    type Case = Case;
    fn id(&self) -> &'static str {
        "C15"
    }
    fn strategy(&self, tier: Tier) -> BoxedStrategy<Case> {
        let (nts, inputs, raws) = match tier {
            Tier::Quick => (5, 6..12, 8..14),
            Tier::Thorough => (7, 12..20, 16..28),
        };
        let pool = prop_oneof![Just(Pool::Plain), Just(Pool::Unicode(true)), Just(Pool::Overlap)];
        let raw = prop_oneof![
            3 => "\\PC{0,40}",
            2 => any::<String>().prop_map(|s| s.chars().take(60).collect::<String>()),
            1 => "[abc \\n\\t+*()0-9x-z]{0,60}",
            1 => "[中文一二αβγé→ \\n]{0,70}",
        ];
        (
            pool.prop_flat_map(move |pool| {
                gcase(
                    gen::BnfParams { max_nts: nts, ambiguous_ok: true, pool, ..gen::BnfParams::lr_small() },
                    inputs.clone(),
                    24,
                )
            }),
            any::<bool>(),
            any::<bool>(),
            any::<bool>(),
            prop::bool::weighted(0.2),
            proptest::collection::vec(raw, raws),
            prop_oneof![2 => Just(vec![]), 1 => proptest::collection::vec(any::<u16>(), 10..60)],
            proptest::collection::vec((any::<u16>(), any::<u16>(), any::<u16>()), 6..12),
            proptest::collection::vec((any::<u8>(), any::<u16>()), 2..5),
            prop_oneof![4 => Just(0u8), 1 => Just(1u8), 1 => Just(2u8), 1 => Just(3u8)],
        )
            .prop_map(|(g, glr, ps, pse, partial, raw_inputs, meta_tape, mutations, badlex, layout_mode)| Case {
                g,
                glr,
                ps,
                pse,
                partial,
                raw_inputs,
                meta_tape,
                mutations,
                badlex,
                layout_mode,
                generated: None,
            })
            .boxed()
    }
    fn cases(&self, tier: Tier) -> u32 {
        match tier {
            Tier::Quick => 5000,
            Tier::Thorough => 100_000,
        }
    }
    fn rule(&self) -> String {
        "case = generated grammar from every family (plain / multi-byte incl. tokens > 50 bytes of \
         3-byte characters / overlapping terminals; ambiguous, cyclic and empty-ambiguous shapes \
         included) compiled for LR (random prefer-shift settings; must be conflict-free after \
         resolution, i.e. accepted by the compiler) or GLR, partial parsing on in 20%; inputs = \
         rendered sentences and mutations with multi-byte whitespace, character level mutations \
         (splice control / combining / astral characters, delete, duplicate tail), arbitrary Unicode \
         strings, strings with control characters; lexers = the real StringLexer and custom lexers \
         ignoring the expected set (fixed kind, cycling kinds, STOP everywhere, no token). Oracle: \
         parse returns Ok or Err under catch_unwind within a deterministic step budget (every loop \
         iteration of either parser calls the harness's ParserDefinition / recogniser / lexer, which \
         count steps); forest traversal is not part of parse and is not called. non-trivial = \
         (grammar, algorithm, lexer, input) where the input is not ASCII or contains a control \
         character and parse returned Err"
            .into()
    }
    fn assumptions(&self) -> Vec<String> {
        vec![
            "step budget 1e5 calls for LR (inputs <= 220 bytes; LR work is linear) and 2e6 for GLR (inputs <= 24 bytes; GLR work is polynomial in the token count with degree <= longest right-hand side + 1, so the budget is far above legitimate work only for short inputs)".into(),
            "no terminal matches the empty string: a repetition of an empty-matching terminal (`S: A+; A: /a*/;`) yields empty tokens forever by construction (empty-matching terminals are used deliberately, e.g. integer_suffix_opt in examples/clang); recorded in DESIGN.md as an observation outside the explored domain".into(),
            "custom lexers always make progress (one character per token) or return nothing, so non-termination cannot be blamed on them".into(),
            "debug assertions and overflow checks are ON (what `cargo test` users run)".into(),
        ]
    }
    fn describe(&self, case: &Case) -> Value {
        json!({"grammar": spec_of(case).render(), "algo": if case.glr {"GLR"} else {"LR"},
               "prefer_shifts": case.ps, "prefer_shifts_over_empty": case.pse, "partial": case.partial,
               "inputs": inputs_of(case),
               "custom_lexers": case.badlex.iter().map(|(m, k)| format!("{:?}", badmode(*m, *k, case.g.spec.terms.len() + 1))).collect::<Vec<_>>()})
    }
    fn check(&self, case: &Case, st: &mut Stats) -> Outcome {
        if case.generated.is_some() {
            // replay of a failure of the generated-code leg: one scratch crate for this case
            return match generated_batch(std::slice::from_ref(case), "replay") {
                Ok((fails, _, _)) => match fails.into_iter().next() {
                    Some(f) => Outcome::fail(f.sig, f.msg),
                    None => Outcome::Pass,
                },
                Err(e) => {
                    st.discard(&format!("engine-b-infrastructure:{}", e.chars().take(60).collect::<String>()));
                    Outcome::Pass
                }
            };
        }
        let spec_meta = spec_of(case);
        let spec = &spec_meta;
        let text = spec.render();
        let bnf = spec.bnf();
        let cyclic = bnf.is_cyclic();
        let cfg = Cfg {
            algo: if case.glr { Algo::GLR } else { Algo::LR },
            table: None,
            prefer_shifts: if case.glr { None } else { Some(case.ps) },
            pse: if case.glr { None } else { Some(case.pse) },
            most_specific: None,
            longest: None,
            order: None,
        };
        let d = match compile(&text, &cfg) {
            Ok(d) => d,
            Err(CompileErr::Err(_)) => {
                st.discard("compiler-rejects-grammar");
                return Outcome::Pass;
            }
            Err(CompileErr::Panic(_)) => {
                st.discard("compiler-panic(C16)");
                return Outcome::Pass;
            }
        };
        if !case.glr && has_conflicts(&d) {
            st.discard("lr-conflicts-remain(no-parser-generated)");
            return Outcome::Pass;
        }
        if install(&d, &cfg).is_err() {
            return Outcome::Pass;
        }
        let algo = if case.glr { "GLR" } else { "LR" };
        let forced = !case.glr
            && match compile(&spec.without_meta().render(), &Cfg::raw(crate::compile::TT::Pager)) {
                Ok(raw) => has_conflicts(&raw),
                Err(_) => false,
            };
        if forced {
            st.class("grammar-LR-conflicts-resolved-by-disambiguation");
        }
        if !case.glr && empty_reduction_cycle(&d) {
            st.class("table-with-empty-reduction-cycle");
        }
        if !case.glr && !case.meta_tape.is_empty() {
            st.class("grammar-LR-with-meta-data");
        }
        st.class(&format!("grammar-{algo}{}", if cyclic { "-cyclic" } else { "" }));
        let opts = RunOpts { partial: case.partial, skip_ws: true };
        let inputs = inputs_of(case);
        let ctx = |inp: &str, lexer: &str| {
            format!(
                "grammar:\n{text}\nalgo {algo} prefer_shifts={} prefer_shifts_over_empty={} partial={} lexer={lexer}\ninput: {inp:?}",
                case.ps, case.pse, case.partial
            )
        };
        // GLR work is polynomial in the *token* count: rendered inputs (<= 14 tokens, possibly
        // many bytes) are always used, free-form strings only when short
        let max_len = if case.glr { 24 } else { 220 };
        let ntape = case.g.tapes.len();
        let mut ran: Vec<&str> = vec![];
        if case.layout_mode > 0 {
            st.class(&format!("grammar-{algo}-with-layout-rule"));
        }
        for (idx, inp) in inputs.iter().enumerate() {
            if inp.len() > max_len && !(idx < ntape && inp.len() <= 400) {
                continue;
            }
            ran.push(inp.as_str());
            st.sub();
            dynp::reset_steps(if case.glr { C15_GLR_STEPS } else { C15_LR_STEPS });
            let r = if case.glr {
                guarded(|| dynp::glr_parse_forest(inp, opts).map(|_| ()))
            } else {
                guarded(|| dynp::lr_parse(inp, opts).map(|_| ()))
            };
            match r {
                Err(p) => return fail_panic(algo, "default-lexer", &p, forced, ctx(inp, "default")),
                Ok(res) => {
                    st.class(if res.is_ok() { "returned-ok" } else { "returned-err" });
                    let weird = !inp.is_ascii() || inp.chars().any(|c| c.is_control() && c != '\n' && c != '\t');
                    if weird && res.is_err() {
                        st.nontrivial(&format!("{text}\n{algo}\n{inp}"), || {
                            json!({"grammar": text, "algo": algo, "lexer": "default", "input": inp,
                                   "result": res.as_ref().err().map(|e| e.message.clone())})
                        });
                    }
                }
            }
        }
        // the same inputs once more through ONE parser instance (a user who keeps the parser
        // around): still Ok or Err, never a panic
        {
            let budget = if case.glr { C15_GLR_STEPS } else { C15_LR_STEPS };
            let panic: Option<(usize, PanicInfo)> = if case.glr {
                let items = dynp::glr_parse_session(&ran, opts, budget, false);
                st.sub_evaluations += items.len() as u64;
                items.into_iter().enumerate().find_map(|(k, r)| r.err().map(|p| (k, p)))
            } else {
                let items = dynp::lr_parse_session(&ran, opts, budget);
                st.sub_evaluations += items.len() as u64;
                items.into_iter().enumerate().find_map(|(k, r)| r.err().map(|p| (k, p)))
            };
            if let Some((k, p)) = panic {
                return fail_panic(
                    algo,
                    "default-lexer|reused-parser",
                    &p,
                    forced,
                    format!("{}\none parser instance parsed, in order: {:?}", ctx(ran[k], "default"), &ran[..=k]),
                );
            }
            st.class("reused-parser-session");
        }
        // custom lexers
        let nterms = d.terminals.len();
        for (m, k) in &case.badlex {
            let mode = badmode(*m, *k, nterms);
            let lname = format!("{mode:?}");
            let lclass = lname.split('(').next().unwrap_or("").to_string();
            for inp in inputs.iter().take(6) {
                if inp.chars().count() > max_len {
                    continue;
                }
                st.sub();
                dynp::reset_steps(if case.glr { C15_GLR_STEPS } else { C15_LR_STEPS });
                let r = if case.glr {
                    guarded(|| dynp::glr_parse_badlex(inp, mode).map(|_| ()))
                } else {
                    guarded(|| dynp::lr_parse_badlex(inp, mode).map(|_| ()))
                };
                match r {
                    Err(p) => {
                        return fail_panic(algo, &format!("custom-lexer-{lclass}"), &p, forced, ctx(inp, &lname))
                    }
                    Ok(res) => {
                        st.class(&format!("custom-lexer-{lclass}-{}", if res.is_ok() { "ok" } else { "err" }));
                    }
                }
            }
        }
        dynp::uninstall();
        Outcome::Pass
    }
}

// ---------------------------------------------------------------------------------------
// leg 2: generated parsers (engine B)

fn gen_inputs(c: &Case) -> Vec<String> {
    if c.generated.map(|g| g.fancy).unwrap_or(false) {
        return c.raw_inputs.clone();
    }
    let max_len = if c.glr { 24 } else { 220 };
    let ntape = c.g.tapes.len();
    inputs_of(c)
        .into_iter()
        .enumerate()
        .filter(|(idx, inp)| !(inp.len() > max_len && !(*idx < ntape && inp.len() <= 400)))
        .map(|(_, i)| i)
        .collect()
}

fn gen_driver(c: &Case, inputs: &[String]) -> String {
    let mut s = String::from("use super::g::*;\nuse rustemo::Parser;\npub fn run() -> String {\n    let mut out = String::new();\n");
    s.push_str(&format!("    let inputs: [&str; {}] = [{}];\n", inputs.len(), inputs.iter().map(|i| format!("{i:?}")).collect::<Vec<_>>().join(", ")));
    // fresh parser per input, then one parser instance for all inputs
    s.push_str("    for (k, inp) in inputs.iter().enumerate() {\n        let r = std::panic::catch_unwind(|| match GParser::new().parse(inp) { Ok(_) => \"OK\".to_string(), Err(_) => \"ERR\".to_string() });\n        out.push_str(&format!(\"P {k} {}\\n\", r.unwrap_or_else(|e| format!(\"PANIC {}\", e.downcast_ref::<String>().cloned().or_else(|| e.downcast_ref::<&str>().map(|s| s.to_string())).unwrap_or_default().replace('\\n', \" \")))));\n    }\n");
    s.push_str("    let parser = std::panic::AssertUnwindSafe(GParser::new());\n    for (k, inp) in inputs.iter().enumerate() {\n        let r = std::panic::catch_unwind(|| match parser.parse(inp) { Ok(_) => \"OK\".to_string(), Err(_) => \"ERR\".to_string() });\n        out.push_str(&format!(\"R {k} {}\\n\", r.unwrap_or_else(|e| format!(\"PANIC {}\", e.downcast_ref::<String>().cloned().or_else(|| e.downcast_ref::<&str>().map(|s| s.to_string())).unwrap_or_default().replace('\\n', \" \")))));\n    }\n");
    let _ = c;
    s.push_str("    out\n}\n");
    s
}

/// Generate, compile (rustc) and run the real generated parsers of the cases in one scratch
/// crate. Returns (failures, modules run, parses run).
pub fn generated_batch(cases: &[Case], tag: &str) -> Result<(Vec<crate::runner::BatchFailure>, usize, usize), String> {
    use crate::engine_b::{BConfig, GenResult, Scratch};
    let mut sc = Scratch::new(&format!("c15-{tag}"));
    let mut mods: Vec<(String, &Case, String, Vec<String>)> = vec![];
    for (i, c) in cases.iter().enumerate() {
        let g = match c.generated {
            Some(g) => g,
            None => continue,
        };
        let text = spec_of(c).render();
        let cfg = BConfig { glr: c.glr, builder: 1, arrays: g.arrays, loc_info: false, fancy: g.fancy, custom_lexer: false, rn_table: false , no_skip_ws: false };
        let m = format!("m{i}");
        match sc.generate(&m, &text, &cfg) {
            GenResult::Ok => {}
            _ => continue,
        }
        let inputs = gen_inputs(c);
        sc.write_mod(&m, &cfg, Some(&gen_driver(c, &inputs)));
        mods.push((m, c, text, inputs));
    }
    if mods.is_empty() {
        return Ok((vec![], 0, 0));
    }
    let (dropped, blocks) = sc.build_and_run()?;
    let mut fails = vec![];
    let mut parses = 0;
    let mut ran = 0;
    for (m, c, text, inputs) in &mods {
        if dropped.contains_key(m) {
            continue; // does not compile: C11's subject
        }
        ran += 1;
        let block = blocks.get(m).cloned().unwrap_or_default();
        let algo = if c.glr { "GLR" } else { "LR" };
        let layout = if c.generated.map(|g| g.arrays).unwrap_or(false) { "arrays" } else { "functions" };
        let mut lines_seen = 0;
        for line in block.lines() {
            let mut it = line.splitn(3, ' ');
            let (how, k, res) = (it.next().unwrap_or(""), it.next().unwrap_or(""), it.next().unwrap_or(""));
            if how != "P" && how != "R" {
                continue;
            }
            lines_seen += 1;
            parses += 1;
            if let Some(pm) = res.strip_prefix("PANIC") {
                let k: usize = k.parse().unwrap_or(0);
                let inp = inputs.get(k).cloned().unwrap_or_default();
                fails.push(crate::runner::BatchFailure {
                    sig: format!("panic|{algo}|generated-{layout}{}|{}", if how == "R" { "|reused-parser" } else { "" }, crate::compile::norm_msg(pm.trim())),
                    msg: format!("the generated parser ({layout} layout, generic builder, {algo}) panicked: {}\ngrammar:\n{text}\ninput: {inp:?}{}", pm.trim(), if how == "R" { "\n(one parser instance parsed all inputs of the case in order)" } else { "" }),
                    case: serde_json::to_value(Case { raw_inputs: vec![inp.clone()], g: GCase { tapes: vec![], ..c.g.clone() }, mutations: vec![], badlex: vec![], ..(*c).clone() }).unwrap(),
                    description: json!({"grammar": text, "algo": algo, "table_layout": layout, "input": inp}),
                });
                break;
            }
        }
        if lines_seen < 2 * inputs.len() && !block.contains("PANIC") {
            // the module died outside catch_unwind (abort / stack overflow) or printed nothing
            fails.push(crate::runner::BatchFailure {
                sig: format!("abort|{algo}|generated-{layout}"),
                msg: format!("the generated parser produced {} of {} result lines (abort?)\ngrammar:\n{text}\ninputs: {inputs:?}", lines_seen, 2 * inputs.len()),
                case: serde_json::to_value((*c).clone()).unwrap(),
                description: json!({"grammar": text, "algo": algo, "table_layout": layout}),
            });
        }
    }
    sc.cleanup();
    Ok((fails, ran, parses))
}

/// Leg 2 of C15: real generated parsers. Grammars come from the same families; LR only where
/// the raw table is conflict free (the recorded LR reduction loop needs forced resolution and
/// generated code has no step budget).
pub fn generated_leg(tier: Tier, seed: u64) -> crate::runner::RunResult {
    use proptest::strategy::ValueTree;
    let t0 = std::time::Instant::now();
    let ngrammars = match tier {
        Tier::Quick => 24,
        Tier::Thorough => 240,
    };
    let mut runner = crate::runner::batch_runner(seed, "C15-generated", 0);
    let strat = C15.strategy(tier);
    let mut cases: Vec<Case> = vec![];
    let mut tries = 0;
    let mut grammars = 0;
    // half of the grammars deterministic (raw table conflict free: LR and GLR parsers, every cell
    // holds at most one action), half arbitrary (GLR only)
    let (mut det, mut nondet) = (0, 0);
    while grammars < ngrammars && tries < ngrammars * 40 {
        tries += 1;
        let mut c = strat.new_tree(&mut runner).unwrap().current();
        c.meta_tape = vec![];
        c.partial = false;
        if tries % 3 == 0 {
            // deterministic literature shapes without nullable symbols: every cell of their
            // (also right-nulled) table holds at most one action
            c.g.spec = gen::g_bnf(gen::BnfParams { templates_only: true, template_set: &[0, 3, 15, 19, 21, 25], ..gen::BnfParams::lr_small() })
                .new_tree(&mut runner)
                .unwrap()
                .current();
            c.layout_mode = 0;
        }
        let text = spec_of(&c).render();
        let bnf = c.g.spec.bnf();
        if bnf.is_cyclic() {
            continue; // generated GLR code has no step budget: stay with acyclic grammars
        }
        let raw_ok = matches!(compile(&text, &Cfg::raw(crate::compile::TT::Pager)), Ok(d) if !has_conflicts(&d));
        if raw_ok {
            if det >= (ngrammars + 1) / 2 {
                continue;
            }
            det += 1;
        } else {
            if nondet >= ngrammars / 2 {
                continue;
            }
            nondet += 1;
        }
        let mut any = false;
        for glr in [false, true] {
            if !glr && !raw_ok {
                continue;
            }
            for arrays in [false, true] {
                cases.push(Case { glr, generated: Some(GenLeg { arrays, fancy: false }), ..c.clone() });
                any = true;
            }
        }
        if any {
            grammars += 1;
        }
    }
    // fancy-regex family: look-around / back-references inside nested repetitions, whose
    // matching can fail at run time (backtrack limit) on long repetitive inputs
    for (k, re) in ["(?:(?:(?!b).)+c?)+b", "(a+)+\\1b", "(?:a|aa)+(?=c)c", "(?<![a-z])a+"].iter().enumerate() {
        let spec = GrammarSpec {
            terms: vec![TermSpec::regex("Fx", re, &["ab"]), TermSpec::regex("Word", "[a-d]+", &["abc"]), TermSpec::str("Semi", ";")],
            rules: vec![RuleSpec {
                name: "S".into(),
                annotation: None,
                meta: Meta::default(),
                alts: vec![AltSpec::of(vec![Sym::T(0), Sym::T(2)]), AltSpec::of(vec![Sym::T(1), Sym::T(2)]), AltSpec::of(vec![Sym::T(0), Sym::N(0)])],
            }],
            layout: None,
        };
        let raw_inputs = vec![
            "a".repeat(30),
            format!("{}c;", "a".repeat(34)),
            format!("{}b;", "a".repeat(12)),
            "ab;".to_string(),
            "abab;abab".to_string(),
            String::new(),
            format!("{}\n{}", "a".repeat(28), "a".repeat(28)),
        ];
        for glr in [false, true] {
            cases.push(Case {
                g: GCase { spec: spec.clone(), tapes: vec![], lines: false, layout_mode: 0 },
                glr,
                ps: false,
                pse: true,
                partial: false,
                raw_inputs: raw_inputs.clone(),
                meta_tape: vec![],
                mutations: vec![],
                badlex: vec![],
                layout_mode: 0,
                generated: Some(GenLeg { arrays: k % 2 == 0, fancy: true }),
            });
        }
    }
    let mut failures = vec![];
    let (mut ran, mut parses) = (0, 0);
    for (b, chunk) in cases.chunks(48).enumerate() {
        match generated_batch(chunk, &format!("leg{b}")) {
            Ok((f, r, p)) => {
                failures.extend(f);
                ran += r;
                parses += p;
            }
            Err(e) => {
                eprintln!("engine B infrastructure: {e}");
                return crate::runner::RunResult { exit: 2, lines: vec![format!("inconclusive: {e}")] };
            }
        }
    }
    let cov = json!({
        "engine": "B: rcomp output compiled by rustc, generic builder",
        "grammars": grammars,
        "modules_run": ran,
        "parses": parses,
        "rule": "acyclic grammars of the same families x {LR (raw table conflict free), GLR} x {functions, arrays}, plus four hand-written grammars generated with fancy_regex (look-around / back-references in nested repetitions) on long repetitive inputs; the inputs of leg 1 (<= 24 bytes for GLR unless rendered) parsed by a fresh generated parser each and once more by one reused instance, under catch_unwind; any panic or abort is a violation",
        "wall_s": (t0.elapsed().as_secs_f64() * 100.0).round() / 100.0,
    });
    crate::runner::append_leg("C15", tier, seed, failures, "generated_code_leg", cov)
}
