#![no_main]
//! libFuzzer target for C15: bytes -> (grammar from a seeded pool, algorithm, lexer, input) ->
//! real runtime driven by the real table. Oracle inside the target: Ok or Err, no panic, no
//! step-budget overrun, other than the recorded known findings.
use libfuzzer_sys::fuzz_target;
use vcheck::fuzzsupport as fs;

fuzz_target!(|data: &[u8]| {
    fs::init("C15");
    if let Some((sig, msg)) = fs::c15_run(data) {
        if !fs::is_known("C15", &sig) {
            eprintln!("C15 fuzz failure: {sig}\n{msg}");
            std::process::abort();
        }
    }
});
