use std::path::PathBuf;
use std::sync::Arc;
use vcheck::props;
use vcheck::runner::{run_replay, run_search, Prop, RunResult, Tier};

fn go<P: Prop + 'static>(p: P, tier: Tier, seed: u64, replay: &Option<PathBuf>) -> RunResult {
    match replay {
        Some(path) => run_replay(&p, path),
        None => run_search(Arc::new(p), tier, seed),
    }
}

fn main() {
    let args: Vec<String> = std::env::args().collect();
    if args.len() < 3 {
        eprintln!("usage: vcheck <Cnn> <quick|thorough> [--replay file] [--result file]");
        std::process::exit(2);
    }
    let id = args[1].as_str();
    if id == "dbg" {
        // vcheck dbg <grammar file> <input> [glr] : compile and parse once, print the result
        vcheck::compile::install_panic_hook();
        let text = std::fs::read_to_string(&args[2]).expect("grammar file");
        let input = args.get(3).cloned().unwrap_or_default();
        let glr = args.get(4).map(|s| s == "glr").unwrap_or(false);
        let cfg = if glr { vcheck::compile::Cfg::glr() } else { vcheck::compile::Cfg::lr() };
        match vcheck::compile::compile(&text, &cfg) {
            Ok(d) => {
                eprintln!("states {} conflict cells {}", d.states.len(), vcheck::compile::conflict_cells(&d));
                vcheck::props::common::install(&d, &cfg).unwrap();
                vcheck::dynp::reset_steps(1_000_000);
                let r = vcheck::compile::guarded(|| {
                    if glr {
                        vcheck::dynp::glr_parse(&input, Default::default(), 20, false)
                            .map(|o| format!("solutions {} {:?}", o.solutions, o.trees.iter().map(|t| vcheck::props::common::canon_real(&d, t, true)).collect::<Vec<_>>()))
                    } else {
                        vcheck::dynp::lr_parse(&input, Default::default()).map(|t| vcheck::props::common::canon_real(&d, &t, true))
                    }
                });
                eprintln!("{r:?} steps {}", vcheck::dynp::steps());
            }
            Err(e) => eprintln!("compile: {e:?}"),
        }
        return;
    }
    if id == "fuzz2replay" {
        // vcheck fuzz2replay <C15|C16> <artifact file> <out.json>
        vcheck::compile::install_panic_hook();
        let data = std::fs::read(&args[3]).expect("artifact");
        let (prop, case) = match args[2].as_str() {
            "C16" => ("C16", vcheck::fuzzsupport::c16_decode(&data).and_then(|c| serde_json::to_value(c).ok())),
            _ => ("C15", vcheck::fuzzsupport::c15_replay_case(&data)),
        };
        match case {
            Some(c) => {
                let rf = vcheck::runner::ReplayFile {
                    property: prop.to_string(),
                    signature: "from-fuzzer".into(),
                    message: format!("crashing libFuzzer input {}", args[3]),
                    seed: 0,
                    tier: "thorough".into(),
                    description: serde_json::json!({"artifact": args[3]}),
                    case: c,
                };
                std::fs::write(&args[4], serde_json::to_string_pretty(&rf).unwrap()).expect("write replay");
            }
            None => std::process::exit(2),
        }
        return;
    }
    if id == "recgen" {
        use proptest::strategy::{Strategy, ValueTree};
        vcheck::compile::install_panic_hook();
        let n: usize = args[2].parse().unwrap();
        let mut runner = proptest::test_runner::TestRunner::deterministic();
        let (mut ok, mut conflicts, mut err, mut panic) = (0, 0, 0, 0);
        let mut seen = std::collections::BTreeSet::new();
        for _ in 0..n {
            let tape = vcheck::gen::g_rec().new_tree(&mut runner).unwrap().current();
            let spec = match args.get(3).map(|s| s.as_str()) {
                Some("weird") => vcheck::gen::build_rec_weird(&tape),
                Some("kw") => vcheck::gen::build_kw(&tape),
                _ => vcheck::gen::build_rec(&tape),
            };
            let text = spec.render();
            let fresh = seen.insert(text.split("terminals").next().unwrap_or("").to_string());
            match vcheck::compile::compile(&text, &vcheck::compile::Cfg::lr()) {
                Ok(d) => {
                    if vcheck::compile::has_conflicts(&d) { conflicts += 1; if fresh { eprintln!("CONFLICTS\n{}\n-----", text.split("terminals").next().unwrap_or("")); } } else { ok += 1; }
                }
                Err(vcheck::compile::CompileErr::Err(e)) => { err += 1; if err < 3 { eprintln!("ERR {e}\n{text}"); } }
                Err(vcheck::compile::CompileErr::Panic(p)) => { panic += 1; if panic < 3 { eprintln!("PANIC {p:?}\n{text}"); } }
            }
        }
        eprintln!("ok {ok} conflicts {conflicts} err {err} panic {panic} distinct {}", seen.len());
        return;
    }
    if id == "astgen" {
        use proptest::strategy::{Strategy, ValueTree};
        vcheck::compile::install_panic_hook();
        let n: usize = args[2].parse().unwrap();
        let mut runner = proptest::test_runner::TestRunner::deterministic();
        let (mut ok, mut conflicts, mut err, mut panic) = (0, 0, 0, 0);
        for i in 0..n {
            let tape = vcheck::gen::g_ast().new_tree(&mut runner).unwrap().current();
            let spec = vcheck::gen::build_ast(&tape);
            let text = spec.render();
            match vcheck::compile::compile(&text, &vcheck::compile::Cfg::lr()) {
                Ok(d) => {
                    if vcheck::compile::has_conflicts(&d) { conflicts += 1 } else { ok += 1; if i < 3 { eprintln!("{text}\n-----"); } }
                }
                Err(vcheck::compile::CompileErr::Err(e)) => { err += 1; if err < 3 { eprintln!("ERR {e}\n{text}"); } }
                Err(vcheck::compile::CompileErr::Panic(p)) => { panic += 1; if panic < 3 { eprintln!("PANIC {p:?}\n{text}"); } }
            }
        }
        eprintln!("ok {ok} conflicts {conflicts} err {err} panic {panic}");
        return;
    }
    let tier = match args[2].as_str() {
        "quick" => Tier::Quick,
        "thorough" => Tier::Thorough,
        _ => {
            eprintln!("bad tier");
            std::process::exit(2);
        }
    };
    let mut replay = None;
    let mut result_file = None;
    let mut i = 3;
    while i < args.len() {
        match args[i].as_str() {
            "--replay" => {
                replay = Some(PathBuf::from(&args[i + 1]));
                i += 2;
            }
            "--result" => {
                result_file = Some(PathBuf::from(&args[i + 1]));
                i += 2;
            }
            _ => i += 1,
        }
    }
    let seed: u64 = std::env::var("VERIF_SEED").ok().and_then(|s| s.parse().ok()).unwrap_or(1);
    let r = match id {
        "C01" => go(props::c01::C01, tier, seed, &replay),
        "C02" => go(props::c02::C02, tier, seed, &replay),
        "C03" => go(props::c03::C03, tier, seed, &replay),
        "C04" => go(props::c04::C04, tier, seed, &replay),
        "C05" => go(props::c05::C05, tier, seed, &replay),
        "C06" => go(props::c06::C06, tier, seed, &replay),
        "C07" => go(props::c07::C07, tier, seed, &replay),
        "C09" => go(props::c09::C09, tier, seed, &replay),
        "C08" => props::c08::run(tier, seed, replay.as_deref()),
        "C10" => props::c10::run(tier, seed, replay.as_deref()),
        "C11" => props::c11::run(tier, seed, replay.as_deref()),
        "C12" => go(props::c12::C12, tier, seed, &replay),
        "C13" => go(props::c13::C13, tier, seed, &replay),
        "C14" => go(props::c14::C14, tier, seed, &replay),
        "C15" => {
            let mut r = go(props::c15::C15, tier, seed, &replay);
            if replay.is_none() && r.exit == 0 {
                // leg 2: the same question for real generated parsers
                let r2 = props::c15::generated_leg(tier, seed);
                r.lines.extend(r2.lines);
                r.exit = r2.exit;
            }
            r
        }
        "C16" => go(props::c16::C16, tier, seed, &replay),
        "C17" => go(props::c17::C17, tier, seed, &replay),
        "C18" => go(props::c18::C18, tier, seed, &replay),
        _ => {
            eprintln!("unknown property {id}");
            std::process::exit(2);
        }
    };
    props::c16::cleanup();
    let out = r.lines.join("\n");
    if let Some(f) = result_file {
        std::fs::write(f, format!("{out}\n")).expect("write result file");
    } else {
        eprintln!("{out}");
    }
    std::process::exit(r.exit);
}
