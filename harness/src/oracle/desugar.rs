//! Reference desugaring of a `GrammarSpec` to plain BNF following
//! docs/src/grammar_language.md (DESIGN.md appendix A.3). Independent of rustemo.
//!
//! `X?` = fresh `H: X | EMPTY`; `X+` = `H: H X | X`; `X+[S]` = `H: H S X | X`;
//! `X*` = `H0: H1 | EMPTY` over the `+` helper; one helper per distinct
//! (base symbol, operator, separator) in the whole file.

use crate::spec::*;
use std::collections::BTreeMap;

#[derive(Clone, Debug, PartialEq, Eq, PartialOrd, Ord)]
pub enum HelperKey {
    Opt(Sym),
    Plus(Sym, Option<usize>),
    Star(Sym, Option<usize>),
}

pub struct Desugared {
    pub bnf: Bnf,
    /// for every (rule, alt, position): the reference symbol standing there
    pub at: BTreeMap<(usize, usize, usize), Sym>,
    pub helpers: BTreeMap<HelperKey, usize>,
}

pub fn desugar(spec: &GrammarSpec) -> Desugared {
    let mut nts: Vec<NtDef> =
        spec.rules.iter().map(|r| NtDef { name: r.name.clone(), alts: vec![] }).collect();
    let mut helpers: BTreeMap<HelperKey, usize> = BTreeMap::new();
    let mut at = BTreeMap::new();

    fn plus_helper(nts: &mut Vec<NtDef>, helpers: &mut BTreeMap<HelperKey, usize>, base: Sym, sep: Option<usize>) -> usize {
        let key = HelperKey::Plus(base, sep);
        if let Some(h) = helpers.get(&key) {
            return *h;
        }
        let h = nts.len();
        let mut rec = vec![Sym::N(h)];
        if let Some(s) = sep {
            rec.push(Sym::T(s));
        }
        rec.push(base);
        nts.push(NtDef { name: format!("#plus{h}"), alts: vec![rec, vec![base]] });
        helpers.insert(key, h);
        h
    }

    for (ri, r) in spec.rules.iter().enumerate() {
        for (ai, a) in r.alts.iter().enumerate() {
            let mut rhs = vec![];
            for (pi, u) in a.syms.iter().enumerate() {
                let s = match &u.rep {
                    None => u.sym,
                    Some((RepOp::Opt, _)) => {
                        let key = HelperKey::Opt(u.sym);
                        let h = match helpers.get(&key) {
                            Some(h) => *h,
                            None => {
                                let h = nts.len();
                                nts.push(NtDef { name: format!("#opt{h}"), alts: vec![vec![u.sym], vec![]] });
                                helpers.insert(key, h);
                                h
                            }
                        };
                        Sym::N(h)
                    }
                    Some((RepOp::Plus, sep)) => Sym::N(plus_helper(&mut nts, &mut helpers, u.sym, *sep)),
                    Some((RepOp::Star, sep)) => {
                        let key = HelperKey::Star(u.sym, *sep);
                        let h = match helpers.get(&key) {
                            Some(h) => *h,
                            None => {
                                let p = plus_helper(&mut nts, &mut helpers, u.sym, *sep);
                                let h = nts.len();
                                nts.push(NtDef { name: format!("#star{h}"), alts: vec![vec![Sym::N(p)], vec![]] });
                                helpers.insert(key, h);
                                h
                            }
                        };
                        Sym::N(h)
                    }
                };
                at.insert((ri, ai, pi), s);
                rhs.push(s);
            }
            nts[ri].alts.push(rhs);
        }
    }
    Desugared {
        bnf: Bnf {
            nterms: spec.terms.len(),
            term_names: spec.terms.iter().map(|t| t.name.clone()).collect(),
            nts,
            start: 0,
        },
        at,
        helpers,
    }
}

/// All token strings over `alphabet` up to length `max_len` (shortest first).
pub fn all_strings(alphabet: &[usize], max_len: usize) -> Vec<Vec<usize>> {
    let mut out: Vec<Vec<usize>> = vec![vec![]];
    let mut last: Vec<Vec<usize>> = vec![vec![]];
    for _ in 0..max_len {
        let mut next = vec![];
        for w in &last {
            for a in alphabet {
                let mut v = w.clone();
                v.push(*a);
                next.push(v);
            }
        }
        out.extend(next.iter().cloned());
        last = next;
    }
    out
}

#[cfg(test)]
mod tests {
    use super::*;
    use crate::oracle::earley::Earley;
    #[test]
    fn star_with_sep() {
        // S: A*[C] ; A: a
        let spec = GrammarSpec {
            terms: vec![TermSpec::str("Ta", "a"), TermSpec::str("Comma", ",")],
            rules: vec![
                RuleSpec {
                    name: "S".into(),
                    annotation: None,
                    meta: Meta::default(),
                    alts: vec![AltSpec {
                        syms: vec![SymUse { rep: Some((RepOp::Star, Some(1))), ..SymUse::plain(Sym::N(1)) }],
                        meta: Meta::default(),
                        empties: vec![],
                    }],
                },
                RuleSpec { name: "A".into(), annotation: None, meta: Meta::default(), alts: vec![AltSpec::of(vec![Sym::T(0)])] },
            ],
            layout: None,
        };
        let d = desugar(&spec);
        let e = Earley::new(&d.bnf);
        assert!(e.accepts(&[]));
        assert!(e.accepts(&[0]));
        assert!(e.accepts(&[0, 1, 0]));
        assert!(!e.accepts(&[0, 0]));
        assert!(!e.accepts(&[0, 1]));
        assert_eq!(d.helpers.len(), 2);
    }
}
