//! Drive the *real* rustemo runtime (LRParser / GlrParser / StringLexer / TreeBuilder / Forest)
//! in-process from a table dump produced by the *real* compiler, without generated code.
//!
//! The `ParserDefinition`, `State` and `TokenRecognizer` implementations below are thin
//! adapters reading the dump from a thread-local; every call bumps a step counter so that
//! non-termination becomes a deterministic, reproducible failure (no wall clock).

use rustemo::{
    Action, Context, Forest, GlrParser, GssHead, Input, LRContext, LRParser, Lexer, Parser,
    ParserDefinition, Position, SourceSpan, State, StringLexer, Token, TokenRecognizer,
    TreeBuilder, TreeNode,
};
use rustemo_compiler::verif::{DAction, DRecognizer, Dump};
use std::cell::{Cell, RefCell};
use std::rc::Rc;

#[derive(Default, Clone, Copy, Debug, PartialEq, Eq, PartialOrd, Ord, Hash)]
pub struct St(pub usize);
#[derive(Default, Clone, Copy, Debug, PartialEq, Eq, PartialOrd, Ord, Hash)]
pub struct TK(pub usize);
#[derive(Clone, Copy, Debug, PartialEq)]
pub struct PK {
    pub prod: usize,
    pub nt: usize,
}
#[derive(Clone, Copy, Debug)]
pub struct NTK(pub usize);
impl From<PK> for NTK {
    fn from(p: PK) -> Self {
        NTK(p.nt)
    }
}
impl From<St> for usize {
    fn from(s: St) -> usize {
        s.0
    }
}
impl From<TK> for usize {
    fn from(s: TK) -> usize {
        s.0
    }
}

pub struct Cur {
    pub dump: Rc<Dump>,
    pub regexes: Vec<Option<rustemo::regex::Regex>>,
    pub longest: bool,
    pub order: bool,
}

thread_local! {
    static CUR: RefCell<Option<Cur>> = const { RefCell::new(None) };
    static STEPS: Cell<u64> = const { Cell::new(0) };
    static BUDGET: Cell<u64> = const { Cell::new(u64::MAX) };
}

pub const STEP_PANIC: &str = "VERIF-STEP-BUDGET-EXCEEDED";

#[inline]
fn step() {
    STEPS.with(|s| {
        let v = s.get() + 1;
        s.set(v);
        if v > BUDGET.with(|b| b.get()) {
            // make sure the budget does not fire again while unwinding
            BUDGET.with(|b| b.set(u64::MAX));
            panic!("{}", STEP_PANIC);
        }
    })
}

pub fn reset_steps(budget: u64) {
    STEPS.with(|s| s.set(0));
    BUDGET.with(|b| b.set(budget));
}
pub fn steps() -> u64 {
    STEPS.with(|s| s.get())
}

impl State for St {
    fn default_layout() -> Option<Self> {
        CUR.with(|c| c.borrow().as_ref().unwrap().dump.layout_state.map(St))
    }
}

pub struct Def;
pub static DEF: Def = Def;

impl ParserDefinition<St, PK, TK, NTK> for Def {
    fn actions(&self, state: St, token: TK) -> Vec<Action<St, PK>> {
        step();
        CUR.with(|c| {
            let c = c.borrow();
            let d = &c.as_ref().unwrap().dump;
            d.states[state.0].actions[token.0]
                .iter()
                .map(|a| match a {
                    DAction::Shift(s) => Action::Shift(St(*s)),
                    DAction::Reduce(p, l) => {
                        Action::Reduce(PK { prod: *p, nt: d.productions[*p].nonterminal }, *l)
                    }
                    DAction::Accept => Action::Accept,
                })
                .collect()
        })
    }
    fn goto(&self, state: St, nonterm: NTK) -> St {
        step();
        CUR.with(|c| {
            St(c.borrow().as_ref().unwrap().dump.states[state.0].gotos[nonterm.0]
                .expect("goto undefined in table"))
        })
    }
    fn expected_token_kinds(&self, state: St) -> Vec<(TK, bool)> {
        step();
        CUR.with(|c| {
            c.borrow().as_ref().unwrap().dump.states[state.0]
                .sorted_terminals
                .iter()
                .map(|(t, f)| (TK(*t), *f))
                .collect()
        })
    }
    fn longest_match() -> bool {
        CUR.with(|c| c.borrow().as_ref().unwrap().longest)
    }
    fn grammar_order() -> bool {
        CUR.with(|c| c.borrow().as_ref().unwrap().order)
    }
}

pub struct Rec(pub usize);

impl<'i> TokenRecognizer<'i> for Rec {
    fn recognize(&self, input: &'i str) -> Option<&'i str> {
        step();
        CUR.with(|c| {
            let c = c.borrow();
            let c = c.as_ref().unwrap();
            if self.0 == 0 {
                // mirrors the generated STOP recognizer
                return if input.is_empty() { Some("") } else { None };
            }
            match &c.dump.terminals[self.0].recognizer {
                DRecognizer::Str(s) => {
                    if input.starts_with(s.as_str()) {
                        Some(&input[..s.len()])
                    } else {
                        None
                    }
                }
                DRecognizer::Regex(_) => c.regexes[self.0]
                    .as_ref()
                    .unwrap()
                    .find(input)
                    .map(|m| &input[m.start()..m.end()]),
                DRecognizer::None => panic!("Recognize is not defined."),
            }
        })
    }
}

pub const NREC: usize = 64;
macro_rules! recs {
    ($($i:expr),*) => { [$(Rec($i)),*] };
}
pub static RECS: [Rec; NREC] = recs!(
    0, 1, 2, 3, 4, 5, 6, 7, 8, 9, 10, 11, 12, 13, 14, 15, 16, 17, 18, 19, 20, 21, 22, 23, 24, 25,
    26, 27, 28, 29, 30, 31, 32, 33, 34, 35, 36, 37, 38, 39, 40, 41, 42, 43, 44, 45, 46, 47, 48, 49,
    50, 51, 52, 53, 54, 55, 56, 57, 58, 59, 60, 61, 62, 63
);

pub type LCtx<'i> = LRContext<'i, str, St, TK>;
pub type GCtx<'i> = GssHead<'i, str, St, TK>;
pub type RNode<'i> = TreeNode<'i, str, PK, TK>;

#[derive(Clone, Copy, Debug, PartialEq, Eq, Hash, PartialOrd, Ord)]
pub struct Pos {
    pub pos: usize,
    pub line_col: Option<(usize, usize)>,
}
impl From<Position> for Pos {
    fn from(p: Position) -> Self {
        Pos { pos: p.pos, line_col: p.line_col.map(|lc| (lc.line, lc.column)) }
    }
}
#[derive(Clone, Copy, Debug, PartialEq, Eq, Hash, PartialOrd, Ord)]
pub struct Span {
    pub start: Pos,
    pub end: Pos,
}
impl From<SourceSpan> for Span {
    fn from(s: SourceSpan) -> Self {
        Span { start: s.start.into(), end: s.end.into() }
    }
}

/// Owned copy of a generic tree. Slices are stored as byte offsets relative to the input
/// buffer (computed from the *pointers* of the slices, so "the very slice" is checkable).
#[derive(Clone, Debug, PartialEq, Eq)]
pub enum Node {
    Term {
        kind: usize,
        span: Span,
        /// (offset of value ptr relative to input ptr, len) ; None if outside the buffer
        value: Option<(usize, usize)>,
        text: String,
        layout: Option<(Option<usize>, String)>,
    },
    NonTerm {
        prod: usize,
        span: Span,
        children: Vec<Node>,
        layout: Option<(Option<usize>, String)>,
    },
}

fn off(input: &str, s: &str) -> Option<usize> {
    let ip = input.as_ptr() as usize;
    let sp = s.as_ptr() as usize;
    if sp >= ip && sp + s.len() <= ip + input.len() {
        Some(sp - ip)
    } else {
        None
    }
}

pub fn copy_tree(input: &str, n: &RNode) -> Node {
    match n {
        TreeNode::TermNode { token, layout } => Node::Term {
            kind: token.kind.0,
            span: token.span.into(),
            value: off(input, token.value).map(|o| (o, token.value.len())),
            text: token.value.to_string(),
            layout: layout.map(|l| (off(input, l), l.to_string())),
        },
        TreeNode::NonTermNode { prod, span, children, layout } => Node::NonTerm {
            prod: prod.prod,
            span: (*span).into(),
            children: children.iter().map(|c| copy_tree(input, c)).collect(),
            layout: layout.map(|l| (off(input, l), l.to_string())),
        },
    }
}

impl Node {
    pub fn span(&self) -> Span {
        match self {
            Node::Term { span, .. } | Node::NonTerm { span, .. } => *span,
        }
    }
    pub fn leaves<'a>(&'a self, out: &mut Vec<&'a Node>) {
        match self {
            Node::Term { .. } => out.push(self),
            Node::NonTerm { children, .. } => {
                for c in children {
                    c.leaves(out)
                }
            }
        }
    }
    pub fn interior_count(&self) -> usize {
        match self {
            Node::Term { .. } => 0,
            Node::NonTerm { children, .. } => {
                1 + children.iter().map(|c| c.interior_count()).sum::<usize>()
            }
        }
    }
}

#[derive(Clone, Debug, PartialEq, Eq)]
pub struct PErr {
    pub message: String,
    pub span: Option<Span>,
    pub is_parse_error: bool,
}

fn conv_err(e: rustemo::Error) -> PErr {
    match e {
        rustemo::Error::ParseError(pe) => {
            PErr { message: pe.message.clone(), span: pe.span.map(|s| s.into()), is_parse_error: true }
        }
        rustemo::Error::IOError(e) => {
            PErr { message: format!("{e}"), span: None, is_parse_error: false }
        }
    }
}

/// Install a dump as the current thread's parser definition.
pub fn install(dump: Rc<Dump>, longest: bool, order: bool) -> Result<(), String> {
    if dump.terminals.len() > NREC {
        return Err("too many terminals".into());
    }
    let mut regexes = vec![];
    for t in dump.terminals.iter() {
        regexes.push(match &t.recognizer {
            DRecognizer::Regex(r) => Some(
                rustemo::regex::Regex::new(&format!("^(?:{})", r))
                    .map_err(|e| format!("bad regex {r}: {e}"))?,
            ),
            _ => None,
        });
    }
    CUR.with(|c| *c.borrow_mut() = Some(Cur { dump, regexes, longest, order }));
    Ok(())
}

pub fn uninstall() {
    CUR.with(|c| *c.borrow_mut() = None);
}

pub fn with_dump<R>(f: impl FnOnce(&Dump) -> R) -> R {
    CUR.with(|c| f(&c.borrow().as_ref().unwrap().dump))
}

#[derive(Clone, Copy, Debug)]
pub struct RunOpts {
    pub partial: bool,
    pub skip_ws: bool,
}
impl Default for RunOpts {
    fn default() -> Self {
        RunOpts { partial: false, skip_ws: true }
    }
}

/// Parse with the real LR parser and the real generic `TreeBuilder`.
pub fn lr_parse(input: &str, opts: RunOpts) -> Result<Node, PErr> {
    let has_layout = with_dump(|d| d.layout_state.is_some());
    let lexer: StringLexer<LCtx, St, TK, Rec, NREC> =
        StringLexer::new(opts.skip_ws && !has_layout, &RECS);
    let p: LRParser<LCtx, St, PK, TK, NTK, Def, _, TreeBuilder<str, PK, TK>, str> =
        LRParser::new(&DEF, St(0), opts.partial, has_layout, lexer, TreeBuilder::new());
    match p.parse(input) {
        Ok(t) => Ok(copy_tree(input, &t)),
        Err(e) => Err(conv_err(e)),
    }
}

/// One result of a parser session: `Err(panic)` ends the session.
pub type SessionItem<T> = Result<Result<T, PErr>, crate::compile::PanicInfo>;

/// Parse every input, in order, with ONE LR parser instance (as a user who keeps a parser
/// around does). The step budget is reset before every parse; a panic ends the session.
pub fn lr_parse_session(inputs: &[&str], opts: RunOpts, budget: u64) -> Vec<SessionItem<Node>> {
    let has_layout = with_dump(|d| d.layout_state.is_some());
    let lexer: StringLexer<LCtx, St, TK, Rec, NREC> =
        StringLexer::new(opts.skip_ws && !has_layout, &RECS);
    let p: LRParser<LCtx, St, PK, TK, NTK, Def, _, TreeBuilder<str, PK, TK>, str> =
        LRParser::new(&DEF, St(0), opts.partial, has_layout, lexer, TreeBuilder::new());
    let mut out = vec![];
    for input in inputs {
        reset_steps(budget);
        let r = crate::compile::guarded(|| match p.parse(input) {
            Ok(t) => Ok(copy_tree(input, &t)),
            Err(e) => Err(conv_err(e)),
        });
        let stop = r.is_err();
        out.push(r);
        if stop {
            break;
        }
    }
    out
}

/// Same for the GLR parser: (number of solutions, first tree) when `inspect` is set; without it
/// the forest is not traversed at all ((0, None); forests of cyclic grammars cannot be counted).
pub fn glr_parse_session(inputs: &[&str], opts: RunOpts, budget: u64, inspect: bool) -> Vec<SessionItem<(usize, Option<Node>)>> {
    let has_layout = with_dump(|d| d.layout_state.is_some());
    let lexer: StringLexer<GCtx, St, TK, Rec, NREC> =
        StringLexer::new(opts.skip_ws && !has_layout, &RECS);
    let p: GlrParser<St, _, PK, TK, NTK, Def, str, TreeBuilder<str, PK, TK>> =
        GlrParser::new(&DEF, opts.partial, has_layout, lexer);
    let mut out = vec![];
    for input in inputs {
        reset_steps(budget);
        let r = crate::compile::guarded(|| match p.parse(input) {
            Ok(f) => {
                if inspect {
                    Ok((f.solutions(), f.get_first_tree().map(|t| build_tree(input, &t))))
                } else {
                    Ok((0, None))
                }
            }
            Err(e) => Err(conv_err(e)),
        });
        let stop = r.is_err();
        out.push(r);
        if stop {
            break;
        }
    }
    out
}

pub struct GlrOut {
    pub solutions: usize,
    /// trees obtained through get_tree(i).build(TreeBuilder), i < min(solutions, cap)
    pub trees: Vec<Node>,
    pub beyond_none: bool,
    pub iter_count: usize,
    pub iter_same: bool,
    pub into_iter_ref_same: bool,
    pub into_iter_same: bool,
    pub first_is_zero: bool,
}

fn build_tree<'i>(input: &'i str, t: &rustemo_glr::Tree<'i>) -> Node {
    let mut b: TreeBuilder<str, PK, TK> = TreeBuilder::new();
    let n = t.build::<_, St>(&mut b);
    copy_tree(input, &n)
}

pub mod rustemo_glr {
    // `Tree` is not re-exported by name from rustemo's root; obtain it through Forest's API.
    use super::{PK, TK};
    pub type Forest<'i> = rustemo::Forest<'i, str, PK, TK>;
    pub type Tree<'i> = <Forest<'i> as IntoIterator>::Item;
}

pub fn glr_parse_forest<'i>(input: &'i str, opts: RunOpts) -> Result<Forest<'i, str, PK, TK>, PErr> {
    let has_layout = with_dump(|d| d.layout_state.is_some());
    let lexer: StringLexer<GCtx, St, TK, Rec, NREC> =
        StringLexer::new(opts.skip_ws && !has_layout, &RECS);
    let p: GlrParser<St, _, PK, TK, NTK, Def, str, TreeBuilder<str, PK, TK>> =
        GlrParser::new(&DEF, opts.partial, has_layout, lexer);
    p.parse(input).map_err(conv_err)
}

/// Parse with the real GLR parser; enumerate the forest through every public route.
/// `cap` bounds the number of trees built (solutions is always reported in full).
pub fn glr_parse(input: &str, opts: RunOpts, cap: usize, all_routes: bool) -> Result<GlrOut, PErr> {
    let forest = glr_parse_forest(input, opts)?;
    let solutions = forest.solutions();
    let n = solutions.min(cap);
    let mut trees = Vec::with_capacity(n);
    for i in 0..n {
        match forest.get_tree(i) {
            Some(t) => trees.push(build_tree(input, &t)),
            None => {
                return Ok(GlrOut {
                    solutions,
                    trees,
                    beyond_none: false,
                    iter_count: 0,
                    iter_same: false,
                    into_iter_ref_same: false,
                    into_iter_same: false,
                    first_is_zero: false,
                })
            }
        }
    }
    let beyond_none = forest.get_tree(solutions).is_none()
        && forest.get_tree(solutions + 1).is_none()
        && forest.get_tree(solutions + 7).is_none();
    let first_is_zero = match forest.get_first_tree() {
        Some(t) => !trees.is_empty() && build_tree(input, &t) == trees[0],
        None => trees.is_empty() && solutions == 0,
    };
    let mut iter_count = 0;
    let mut iter_same = true;
    let mut into_iter_ref_same = true;
    let mut into_iter_same = true;
    if all_routes && solutions <= cap {
        for (i, t) in forest.iter().enumerate() {
            iter_count += 1;
            if i >= trees.len() || build_tree(input, &t) != trees[i] {
                iter_same = false;
            }
        }
        let mut c = 0;
        for (i, t) in (&forest).into_iter().enumerate() {
            c += 1;
            if i >= trees.len() || build_tree(input, &t) != trees[i] {
                into_iter_ref_same = false;
            }
        }
        if c != trees.len() {
            into_iter_ref_same = false;
        }
        let mut c = 0;
        for (i, t) in forest.into_iter().enumerate() {
            c += 1;
            if i >= trees.len() || build_tree(input, &t) != trees[i] {
                into_iter_same = false;
            }
        }
        if c != trees.len() {
            into_iter_same = false;
        }
    } else {
        iter_count = trees.len();
    }
    Ok(GlrOut {
        solutions,
        trees,
        beyond_none,
        iter_count,
        iter_same,
        into_iter_ref_same,
        into_iter_same,
        first_is_zero,
    })
}

// ---------------------------------------------------------------------------------------
// Custom lexers that ignore the expected set (C15)

#[derive(Clone, Copy, Debug)]
pub enum BadLexMode {
    /// Always returns one fixed token kind with a 1-char slice (or empty at the end).
    FixedKind(usize),
    /// Cycles through all terminal kinds by position.
    Cycle,
    /// Returns STOP (kind 0) immediately regardless of position.
    EarlyStop,
    /// Never returns STOP: at the end of input returns an empty token of kind k.
    NoStop(usize),
    /// Returns no token at all.
    Nothing,
}

pub struct BadLexer {
    pub mode: BadLexMode,
    pub nterms: usize,
}

impl<'i, C> Lexer<'i, C, St, TK> for BadLexer
where
    C: Context<'i, str, St, TK>,
{
    type Input = str;
    fn next_tokens(
        &self,
        context: &mut C,
        input: &'i str,
        _expected: Vec<(TK, bool)>,
    ) -> Box<dyn Iterator<Item = Token<'i, str, TK>> + 'i> {
        step();
        let pos = context.position();
        let rest = &input[pos.pos..];
        let one = |kind: usize| -> Token<'i, str, TK> {
            let len = rest.chars().next().map(|c| c.len_utf8()).unwrap_or(0);
            let v = &rest[..len];
            Token { kind: TK(kind), value: v, span: v.span_from(pos) }
        };
        let tok = match self.mode {
            BadLexMode::FixedKind(k) => {
                if rest.is_empty() {
                    Some(one(0))
                } else {
                    Some(one(k % self.nterms))
                }
            }
            BadLexMode::Cycle => {
                if rest.is_empty() {
                    Some(one(0))
                } else {
                    Some(one(1 + pos.pos % (self.nterms.max(2) - 1)))
                }
            }
            BadLexMode::EarlyStop => Some(one(0)).map(|mut t| {
                t.value = &rest[..0];
                t.span = t.value.span_from(pos);
                t
            }),
            BadLexMode::NoStop(k) => Some(one(k % self.nterms)),
            BadLexMode::Nothing => None,
        };
        Box::new(tok.into_iter())
    }
}

pub fn lr_parse_badlex(input: &str, mode: BadLexMode) -> Result<Node, PErr> {
    let nterms = with_dump(|d| d.terminals.len());
    let has_layout = with_dump(|d| d.layout_state.is_some());
    let lexer = BadLexer { mode, nterms };
    let p: LRParser<LCtx, St, PK, TK, NTK, Def, _, TreeBuilder<str, PK, TK>, str> =
        LRParser::new(&DEF, St(0), false, has_layout, lexer, TreeBuilder::new());
    match p.parse(input) {
        Ok(t) => Ok(copy_tree(input, &t)),
        Err(e) => Err(conv_err(e)),
    }
}

pub fn glr_parse_badlex(input: &str, mode: BadLexMode) -> Result<usize, PErr> {
    let nterms = with_dump(|d| d.terminals.len());
    let has_layout = with_dump(|d| d.layout_state.is_some());
    let lexer = BadLexer { mode, nterms };
    let p: GlrParser<St, _, PK, TK, NTK, Def, str, TreeBuilder<str, PK, TK>> =
        GlrParser::new(&DEF, false, has_layout, lexer);
    match p.parse(input) {
        Ok(_f) => Ok(0),
        Err(e) => Err(conv_err(e)),
    }
}
