//! C15 — parsing is total: any input and lexer give Ok or Err, never a panic or hang.
//! Generated grammars x arbitrary strings x {default lexer, custom lexers that ignore the
//! expected set}; non-termination is detected by a deterministic step budget.

use super::common::*;
use crate::compile::{compile, guarded, has_conflicts, panic_sig, Algo, Cfg, CompileErr, PanicInfo};
use crate::dynp::{self, BadLexMode, RunOpts};
use crate::gen::{self, pick, Cursor, LayoutStyle, Pool};
use crate::runner::{Outcome, Prop, Stats, Tier};
use crate::spec::*;
use proptest::prelude::*;
use serde::{Deserialize, Serialize};
use serde_json::{json, Value};

pub struct C15;

#[derive(Clone, Debug, Serialize, Deserialize)]
pub struct Case {
    pub g: GCase,
    pub glr: bool,
    pub ps: bool,
    pub pse: bool,
    pub partial: bool,
    pub raw_inputs: Vec<String>,
    /// disambiguation meta-data sprinkled over the grammar (LR only; empty = none)
    #[serde(default)]
    pub meta_tape: Vec<u16>,
    pub mutations: Vec<(u16, u16, u16)>,
    pub badlex: Vec<(u8, u16)>,
    /// 0 = default whitespace skipping, 1..3 = Layout rule (whitespace + comments templates)
    #[serde(default)]
    pub layout_mode: u8,
}

fn kind_of(mode: u8) -> Option<LayoutKind> {
    match mode {
        0 => None,
        1 => Some(LayoutKind::WsLine),
        2 => Some(LayoutKind::WsLineBlock),
        _ => Some(LayoutKind::WsLineBlockPlus),
    }
}

pub const C15_LR_STEPS: u64 = 100_000;
pub const C15_GLR_STEPS: u64 = 2_000_000;

const SPLICE: &[&str] = &["\u{0}", "\u{7f}", "é", "→", "中", "\u{feff}", "\u{1f600}", "\r", "\u{2028}", "a\u{301}", "\t", "\\", "\"", "\u{85}"];

pub fn inputs_of(c: &Case) -> Vec<String> {
    let bnf = c.g.spec.bnf();
    let mut v: Vec<String> = vec![];
    for (ii, tape) in c.g.tapes.iter().enumerate() {
        let toks = gen::tokens_for(&bnf, tape, 12);
        let mut cur = Cursor::new(&tape.tape);
        if c.layout_mode > 0 && ii % 2 == 1 {
            v.push(gen::render_with_layout(&c.g.spec.terms, &toks, kind_of(c.layout_mode), ii % 3 == 0, &mut cur).text);
            continue;
        }
        let style = if ii % 2 == 0 { LayoutStyle::Unicode } else { LayoutStyle::Minimal };
        v.push(gen::render_tokens_sep(&c.g.spec.terms, &toks, style, &mut cur, ii % 3 != 0).text);
    }
    // character level mutations of rendered inputs (kept valid UTF-8)
    let base = v.clone();
    for (k, (which, at, what)) in c.mutations.iter().enumerate() {
        if base.is_empty() {
            break;
        }
        let s = &base[pick(*which, base.len())];
        let chars: Vec<char> = s.chars().collect();
        let i = pick(*at, chars.len() + 1);
        let mut out: String = chars[..i].iter().collect();
        match k % 3 {
            0 => {
                out.push_str(SPLICE[pick(*what, SPLICE.len())]);
                out.extend(chars[i..].iter());
            }
            1 => {
                // delete one char
                out.extend(chars[(i + 1).min(chars.len())..].iter());
            }
            _ => {
                // duplicate the tail
                out.extend(chars[i..].iter());
                out.extend(chars[i..].iter());
            }
        }
        v.push(out);
    }
    v.extend(c.raw_inputs.iter().cloned());
    v
}

pub fn spec_of(c: &Case) -> GrammarSpec {
    let mut s = c.g.spec.clone();
    if !c.glr && !c.meta_tape.is_empty() {
        let mut cur = Cursor::new(&c.meta_tape);
        gen::sprinkle_meta(&mut s, &mut cur, true);
    }
    s.layout = kind_of(c.layout_mode);
    s
}

/// Does the table contain, for some lookahead, a cycle of states connected by forced EMPTY
/// reductions (state q reduces an empty production on x and the goto leads, possibly through
/// more such states, back to q)? Such a table loops forever without consuming input.
pub fn empty_reduction_cycle(d: &rustemo_compiler::verif::Dump) -> bool {
    use rustemo_compiler::verif::DAction;
    let n = d.states.len();
    for x in 0..d.terminals.len() {
        let next: Vec<Option<usize>> = (0..n)
            .map(|q| match d.states[q].actions[x].first() {
                Some(DAction::Reduce(p, 0)) if d.states[q].actions[x].len() == 1 => {
                    d.states[q].gotos[d.productions[*p].nonterminal]
                }
                _ => None,
            })
            .collect();
        for s0 in 0..n {
            let mut q = s0;
            for _ in 0..=n {
                match next[q] {
                    Some(t) => {
                        q = t;
                        if q == s0 {
                            return true;
                        }
                    }
                    None => break,
                }
            }
        }
    }
    false
}

fn badmode(m: u8, k: u16, nterms: usize) -> BadLexMode {
    match m % 4 {
        0 => BadLexMode::FixedKind(1 + pick(k, nterms.max(2) - 1)),
        1 => BadLexMode::Cycle,
        2 => BadLexMode::EarlyStop,
        _ => BadLexMode::Nothing,
    }
}

fn fail_panic(algo: &str, lexer: &str, p: &PanicInfo, forced: bool, ctx: String) -> Outcome {
    if is_step_panic(p) {
        // structural class: the grammar is not LR / not deterministic and its conflicts were
        // resolved by disambiguation (priorities, associativity, prefer-shift settings)
        Outcome::fail(
            format!(
                "hang|{algo}|{}",
                if forced { "conflicts-resolved-by-disambiguation" } else { "conflict-free-grammar" }
            ),
            format!("step budget exceeded (non-termination), lexer {lexer}\n{ctx}"),
        )
    } else {
        Outcome::fail(
            format!("panic|{algo}|{lexer}|{}", panic_sig(p)),
            format!("panic at {}:{}: {}\n{ctx}", p.file, p.line, p.message),
        )
    }
}

impl Prop for C15 {
    type Case = Case;
    fn id(&self) -> &'static str {
        "C15"
    }
    fn strategy(&self, tier: Tier) -> BoxedStrategy<Case> {
        let (nts, inputs, raws) = match tier {
            Tier::Quick => (5, 6..12, 8..14),
            Tier::Thorough => (7, 12..20, 16..28),
        };
        let pool = prop_oneof![Just(Pool::Plain), Just(Pool::Unicode(true)), Just(Pool::Overlap)];
        let raw = prop_oneof![
            3 => "\\PC{0,40}",
            2 => any::<String>().prop_map(|s| s.chars().take(60).collect::<String>()),
            1 => "[abc \\n\\t+*()0-9x-z]{0,60}",
            1 => "[中文一二αβγé→ \\n]{0,70}",
        ];
        (
            pool.prop_flat_map(move |pool| {
                gcase(
                    gen::BnfParams { max_nts: nts, ambiguous_ok: true, pool, ..gen::BnfParams::lr_small() },
                    inputs.clone(),
                    24,
                )
            }),
            any::<bool>(),
            any::<bool>(),
            any::<bool>(),
            prop::bool::weighted(0.2),
            proptest::collection::vec(raw, raws),
            prop_oneof![2 => Just(vec![]), 1 => proptest::collection::vec(any::<u16>(), 10..60)],
            proptest::collection::vec((any::<u16>(), any::<u16>(), any::<u16>()), 6..12),
            proptest::collection::vec((any::<u8>(), any::<u16>()), 2..5),
            prop_oneof![4 => Just(0u8), 1 => Just(1u8), 1 => Just(2u8), 1 => Just(3u8)],
        )
            .prop_map(|(g, glr, ps, pse, partial, raw_inputs, meta_tape, mutations, badlex, layout_mode)| Case {
                g,
                glr,
                ps,
                pse,
                partial,
                raw_inputs,
                meta_tape,
                mutations,
                badlex,
                layout_mode,
            })
            .boxed()
    }
    fn cases(&self, tier: Tier) -> u32 {
        match tier {
            Tier::Quick => 5000,
            Tier::Thorough => 100_000,
        }
    }
    fn rule(&self) -> String {
        "case = generated grammar from every family (plain / multi-byte incl. tokens > 50 bytes of \
         3-byte characters / overlapping terminals; ambiguous, cyclic and empty-ambiguous shapes \
         included) compiled for LR (random prefer-shift settings; must be conflict-free after \
         resolution, i.e. accepted by the compiler) or GLR, partial parsing on in 20%; inputs = \
         rendered sentences and mutations with multi-byte whitespace, character level mutations \
         (splice control / combining / astral characters, delete, duplicate tail), arbitrary Unicode \
         strings, strings with control characters; lexers = the real StringLexer and custom lexers \
         ignoring the expected set (fixed kind, cycling kinds, STOP everywhere, no token). Oracle: \
         parse returns Ok or Err under catch_unwind within a deterministic step budget (every loop \
         iteration of either parser calls the harness's ParserDefinition / recogniser / lexer, which \
         count steps); forest traversal is not part of parse and is not called. non-trivial = \
         (grammar, algorithm, lexer, input) where the input is not ASCII or contains a control \
         character and parse returned Err"
            .into()
    }
    fn assumptions(&self) -> Vec<String> {
        vec![
            "step budget 1e5 calls for LR (inputs <= 220 bytes; LR work is linear) and 2e6 for GLR (inputs <= 24 bytes; GLR work is polynomial in the token count with degree <= longest right-hand side + 1, so the budget is far above legitimate work only for short inputs)".into(),
            "custom lexers always make progress (one character per token) or return nothing, so non-termination cannot be blamed on them".into(),
            "debug assertions and overflow checks are ON (what `cargo test` users run)".into(),
        ]
    }
    fn describe(&self, case: &Case) -> Value {
        json!({"grammar": spec_of(case).render(), "algo": if case.glr {"GLR"} else {"LR"},
               "prefer_shifts": case.ps, "prefer_shifts_over_empty": case.pse, "partial": case.partial,
               "inputs": inputs_of(case),
               "custom_lexers": case.badlex.iter().map(|(m, k)| format!("{:?}", badmode(*m, *k, case.g.spec.terms.len() + 1))).collect::<Vec<_>>()})
    }
    fn check(&self, case: &Case, st: &mut Stats) -> Outcome {
        let spec_meta = spec_of(case);
        let spec = &spec_meta;
        let text = spec.render();
        let bnf = spec.bnf();
        let cyclic = bnf.is_cyclic();
        let cfg = Cfg {
            algo: if case.glr { Algo::GLR } else { Algo::LR },
            table: None,
            prefer_shifts: if case.glr { None } else { Some(case.ps) },
            pse: if case.glr { None } else { Some(case.pse) },
            most_specific: None,
            longest: None,
            order: None,
        };
        let d = match compile(&text, &cfg) {
            Ok(d) => d,
            Err(CompileErr::Err(_)) => {
                st.discard("compiler-rejects-grammar");
                return Outcome::Pass;
            }
            Err(CompileErr::Panic(_)) => {
                st.discard("compiler-panic(C16)");
                return Outcome::Pass;
            }
        };
        if !case.glr && has_conflicts(&d) {
            st.discard("lr-conflicts-remain(no-parser-generated)");
            return Outcome::Pass;
        }
        if install(&d, &cfg).is_err() {
            return Outcome::Pass;
        }
        let algo = if case.glr { "GLR" } else { "LR" };
        let forced = !case.glr
            && match compile(&spec.without_meta().render(), &Cfg::raw(crate::compile::TT::Pager)) {
                Ok(raw) => has_conflicts(&raw),
                Err(_) => false,
            };
        if forced {
            st.class("grammar-LR-conflicts-resolved-by-disambiguation");
        }
        if !case.glr && empty_reduction_cycle(&d) {
            st.class("table-with-empty-reduction-cycle");
        }
        if !case.glr && !case.meta_tape.is_empty() {
            st.class("grammar-LR-with-meta-data");
        }
        st.class(&format!("grammar-{algo}{}", if cyclic { "-cyclic" } else { "" }));
        let opts = RunOpts { partial: case.partial, skip_ws: true };
        let inputs = inputs_of(case);
        let ctx = |inp: &str, lexer: &str| {
            format!(
                "grammar:\n{text}\nalgo {algo} prefer_shifts={} prefer_shifts_over_empty={} partial={} lexer={lexer}\ninput: {inp:?}",
                case.ps, case.pse, case.partial
            )
        };
        // GLR work is polynomial in the *token* count: rendered inputs (<= 14 tokens, possibly
        // many bytes) are always used, free-form strings only when short
        let max_len = if case.glr { 24 } else { 220 };
        let ntape = case.g.tapes.len();
        let mut ran: Vec<&str> = vec![];
        if case.layout_mode > 0 {
            st.class(&format!("grammar-{algo}-with-layout-rule"));
        }
        for (idx, inp) in inputs.iter().enumerate() {
            if inp.len() > max_len && !(idx < ntape && inp.len() <= 400) {
                continue;
            }
            ran.push(inp.as_str());
            st.sub();
            dynp::reset_steps(if case.glr { C15_GLR_STEPS } else { C15_LR_STEPS });
            let r = if case.glr {
                guarded(|| dynp::glr_parse_forest(inp, opts).map(|_| ()))
            } else {
                guarded(|| dynp::lr_parse(inp, opts).map(|_| ()))
            };
            match r {
                Err(p) => return fail_panic(algo, "default-lexer", &p, forced, ctx(inp, "default")),
                Ok(res) => {
                    st.class(if res.is_ok() { "returned-ok" } else { "returned-err" });
                    let weird = !inp.is_ascii() || inp.chars().any(|c| c.is_control() && c != '\n' && c != '\t');
                    if weird && res.is_err() {
                        st.nontrivial(&format!("{text}\n{algo}\n{inp}"), || {
                            json!({"grammar": text, "algo": algo, "lexer": "default", "input": inp,
                                   "result": res.as_ref().err().map(|e| e.message.clone())})
                        });
                    }
                }
            }
        }
        // the same inputs once more through ONE parser instance (a user who keeps the parser
        // around): still Ok or Err, never a panic
        {
            let budget = if case.glr { C15_GLR_STEPS } else { C15_LR_STEPS };
            let panic: Option<(usize, PanicInfo)> = if case.glr {
                let items = dynp::glr_parse_session(&ran, opts, budget, false);
                st.sub_evaluations += items.len() as u64;
                items.into_iter().enumerate().find_map(|(k, r)| r.err().map(|p| (k, p)))
            } else {
                let items = dynp::lr_parse_session(&ran, opts, budget);
                st.sub_evaluations += items.len() as u64;
                items.into_iter().enumerate().find_map(|(k, r)| r.err().map(|p| (k, p)))
            };
            if let Some((k, p)) = panic {
                return fail_panic(
                    algo,
                    "default-lexer|reused-parser",
                    &p,
                    forced,
                    format!("{}\none parser instance parsed, in order: {:?}", ctx(ran[k], "default"), &ran[..=k]),
                );
            }
            st.class("reused-parser-session");
        }
        // custom lexers
        let nterms = d.terminals.len();
        for (m, k) in &case.badlex {
            let mode = badmode(*m, *k, nterms);
            let lname = format!("{mode:?}");
            let lclass = lname.split('(').next().unwrap_or("").to_string();
            for inp in inputs.iter().take(6) {
                if inp.chars().count() > max_len {
                    continue;
                }
                st.sub();
                dynp::reset_steps(if case.glr { C15_GLR_STEPS } else { C15_LR_STEPS });
                let r = if case.glr {
                    guarded(|| dynp::glr_parse_badlex(inp, mode).map(|_| ()))
                } else {
                    guarded(|| dynp::lr_parse_badlex(inp, mode).map(|_| ()))
                };
                match r {
                    Err(p) => {
                        return fail_panic(algo, &format!("custom-lexer-{lclass}"), &p, forced, ctx(inp, &lname))
                    }
                    Ok(res) => {
                        st.class(&format!("custom-lexer-{lclass}-{}", if res.is_ok() { "ok" } else { "err" }));
                    }
                }
            }
        }
        dynp::uninstall();
        Outcome::Pass
    }
}
