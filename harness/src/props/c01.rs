//! C01 — a deterministic LR parser accepts exactly L(G). Differential vs an Earley recogniser.

use super::common::*;
use crate::compile::{guarded, has_conflicts, Cfg, TT};
use crate::dynp::{self, RunOpts};
use crate::gen::{self, Cursor, LayoutStyle};
use crate::oracle::earley::Earley;
use crate::runner::{Outcome, Prop, Stats, Tier};
use proptest::prelude::*;
use serde_json::{json, Value};

pub struct C01;

impl Prop for C01 {
    type Case = GCase;
    fn id(&self) -> &'static str {
        "C01"
    }
    fn strategy(&self, tier: Tier) -> BoxedStrategy<GCase> {
        match tier {
            Tier::Quick => gcase(gen::BnfParams::lr_small(), 16..28, 24),
            Tier::Thorough => gcase(
                gen::BnfParams { max_nts: 8, max_terms: 6, ..gen::BnfParams::lr_small() },
                30..44,
                40,
            ),
        }
    }
    fn cases(&self, tier: Tier) -> u32 {
        match tier {
            Tier::Quick => 6000,
            Tier::Thorough => 120_000,
        }
    }
    fn rule(&self) -> String {
        "case = generated BNF grammar (free-form / guarded / literature-shape mixers over prefix-free \
         terminals) + 16..28 input tapes (derived sentences, mutations, random token strings); per \
         table type in {LALR, LALR_PAGER} the grammar is in scope iff the real raw table (GLR \
         algorithm, no preferences) has no multi-action cell; oracle: LRParser::parse(text).is_ok() \
         == Earley(spec BNF).accepts(tokens), under default whitespace skipping or one of four \
         Layout-rule templates (inputs then carry comments between the tokens), for a fresh parser \
         per input and once more for one reused parser instance. non-trivial = (grammar text, table, input) where the \
         grammar has a nullable symbol or recursion and the input has >= 2 tokens; distinct by hash \
         of that triple"
            .into()
    }
    fn assumptions(&self) -> Vec<String> {
        vec![
            "token recognisers of the dump-driven parser mirror the generated ones (starts_with / ^regex / STOP at end); the generated recognisers themselves are covered by C08".into(),
            "terminal set is prefix-free so the generator's token list is the only tokenisation".into(),
            "grammars <= 8 nonterminals, inputs <= 12 tokens".into(),
        ]
    }
    fn describe(&self, case: &GCase) -> Value {
        let bnf = case.spec.bnf();
        let inputs: Vec<Value> = case
            .tapes
            .iter()
            .map(|t| {
                let toks = gen::tokens_for(&bnf, t, 12);
                let mut c = Cursor::new(&t.tape);
                let r = gen::render_tokens(&case.spec.terms, &toks, LayoutStyle::Minimal, &mut c);
                json!(r.text)
            })
            .collect();
        json!({"grammar": case.spec.render(), "inputs": inputs})
    }

    fn check(&self, case: &GCase, st: &mut Stats) -> Outcome {
        let mut spec_l = case.spec.clone();
        spec_l.layout = layout_kind_of(case.layout_mode);
        if case.lines {
            // the same language spelled with redundant EMPTY references inside alternatives
            for (i, r) in spec_l.rules.iter_mut().enumerate() {
                for (k, a) in r.alts.iter_mut().enumerate() {
                    if !a.syms.is_empty() && (i + k) % 2 == 0 {
                        a.empties = vec![((i + k) % (a.syms.len() + 1)) as u8];
                    }
                }
            }
            st.class("redundant-EMPTY-references");
        }
        let spec = &spec_l;
        st.class(&format!("layout-mode-{}", case.layout_mode));
        let text = spec.render();
        let bnf = spec.bnf();
        let (nullable, recursive) = grammar_classes(&bnf);
        let earley = Earley::new(&bnf);
        let mut in_scope = [false; 2];
        for (ti, tt) in [TT::Lalr, TT::Pager].iter().enumerate() {
            let raw = match compile_or_discard(&text, &Cfg::raw(*tt), st) {
                Ok(d) => d,
                Err(Some(_e)) => {
                    st.discard("compiler-rejects-grammar");
                    return Outcome::Pass;
                }
                Err(None) => return Outcome::Pass,
            };
            if has_conflicts(&raw) {
                st.class(&format!("out-of-scope-conflicts-{}", tt.name()));
                continue;
            }
            in_scope[ti] = true;
            st.class(&format!("in-scope-{}", tt.name()));
            // compile as a user would
            let cfg = Cfg::lr().with_table(*tt);
            let d = match compile_or_discard(&text, &cfg, st) {
                Ok(d) => d,
                Err(Some(e)) => {
                    return Outcome::fail(
                        format!("rejected-in-scope|table={}", tt.name()),
                        format!("raw table is conflict free but LR compilation failed: {e}\n{text}"),
                    )
                }
                Err(None) => return Outcome::Pass,
            };
            if has_conflicts(&d) {
                return Outcome::fail(
                    format!("conflicts-in-scope|table={}", tt.name()),
                    format!("raw table conflict free, LR table has conflicts\n{text}"),
                );
            }
            if let Err(e) = install(&d, &cfg) {
                st.discard(&format!("install:{e}"));
                return Outcome::Pass;
            }
            // (text, oracle verdict) for the parser-reuse pass
            let mut session: Vec<(String, bool)> = vec![];
            for (ii, tape) in case.tapes.iter().enumerate() {
                let toks = gen::tokens_for(&bnf, tape, 12);
                let mut c = Cursor::new(&tape.tape);
                let style = if ii % 3 == 0 { LayoutStyle::Ascii } else { LayoutStyle::Minimal };
                let r = if case.layout_mode > 0 {
                    gen::render_with_layout(&spec.terms, &toks, layout_kind_of(case.layout_mode), ii % 3 != 0, &mut c)
                } else {
                    gen::render_tokens(&spec.terms, &toks, style, &mut c)
                };
                let expected = earley.accepts(&toks);
                session.push((r.text.clone(), expected));
                st.sub();
                dynp::reset_steps(LR_STEPS);
                let real = match guarded(|| dynp::lr_parse(&r.text, RunOpts::default())) {
                    Ok(r) => r,
                    Err(p) => return panic_outcome(&format!("parse|table={}", tt.name()), &p),
                };
                st.class(if expected { "sentence" } else { "non-sentence" });
                if real.is_ok() != expected {
                    return Outcome::fail(
                        format!(
                            "accept|table={}|real={}|oracle={}",
                            tt.name(),
                            if real.is_ok() { "Ok" } else { "Err" },
                            if expected { "sentence" } else { "non-sentence" }
                        ),
                        format!(
                            "grammar:\n{text}\ninput: {:?}\ntokens: {:?}\nreal: {:?}",
                            r.text,
                            toks.iter().map(|t| spec.terms[*t].name.clone()).collect::<Vec<_>>(),
                            real.as_ref().map(|_| "Ok").map_err(|e| e.message.clone())
                        ),
                    );
                }
                if (nullable || recursive) && toks.len() >= 2 {
                    let key = format!("{text}\n{}\n{}", tt.name(), r.text);
                    st.nontrivial(&key, || {
                        json!({"grammar": text, "table": tt.name(), "input": r.text,
                               "oracle_sentence": expected, "real_ok": real.is_ok()})
                    });
                }
            }
            // the same inputs once more through ONE parser instance: the verdict for every input
            // must still be the oracle's
            {
                let texts: Vec<&str> = session.iter().map(|x| x.0.as_str()).collect();
                for (k, item) in dynp::lr_parse_session(&texts, RunOpts::default(), LR_STEPS).into_iter().enumerate() {
                    st.sub();
                    match item {
                        Err(p) => return panic_outcome(&format!("reused-parser|parse|table={}", tt.name()), &p),
                        Ok(r) => {
                            if r.is_ok() != session[k].1 {
                                return Outcome::fail(
                                    format!(
                                        "reused-parser|accept|table={}|real={}|oracle={}",
                                        tt.name(),
                                        if r.is_ok() { "Ok" } else { "Err" },
                                        if session[k].1 { "sentence" } else { "non-sentence" }
                                    ),
                                    format!("grammar:\n{text}\none parser instance parsed, in order: {:?}\ninput #{k}: {:?}", &texts[..=k], texts[k]),
                                );
                            }
                        }
                    }
                }
            }
            dynp::uninstall();
        }
        if in_scope[1] && !in_scope[0] {
            st.class("lalr-conflicts-but-pager-conflict-free");
        }
        if nullable {
            st.class("grammar-nullable");
        }
        if recursive {
            st.class("grammar-recursive");
        }
        Outcome::Pass
    }
}
