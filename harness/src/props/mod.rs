pub mod common;
pub mod c01;
pub mod c03;
pub mod c13;
pub mod c07;
pub mod c12;
pub mod c04;
pub mod c05;
