//! C14 — the generic parse tree is lossless: tokens and layout reconstruct the input.
//! Round-trip + metamorphic (re-layout never changes the tree).

use super::common::*;
use crate::compile::{guarded, has_conflicts, Cfg};
use crate::dynp::{self, Node, RunOpts};
use crate::gen::{self, Cursor};
use crate::oracle::earley::Earley;
use crate::oracle::layoutmodel::{is_layout, is_ws};
use crate::runner::{Outcome, Prop, Stats, Tier};
use crate::spec::*;
use proptest::prelude::*;
use serde::{Deserialize, Serialize};
use serde_json::{json, Value};

pub struct C14;

#[derive(Clone, Debug, Serialize, Deserialize)]
pub struct Case {
    pub g: GCase,
    /// 0 = default whitespace skipping, 1..4 = Layout templates
    pub mode: u8,
    /// layout tapes: each sentence is rendered once per tape (plus the minimal layout)
    pub layouts: Vec<Vec<u16>>,
    /// family "a terminal that itself begins with layout characters" (`X: /\\s+x/` next to `Y: 'x'`
    /// under a Layout rule): only the round trip is judged, see `check_leadws`
    #[serde(default)]
    pub leadws: Option<LeadWs>,
}

#[derive(Clone, Debug, Serialize, Deserialize)]
pub struct LeadWs {
    /// number of `Y` at the end of the second alternative (1..=3)
    pub ny: u8,
    pub nullable_a: bool,
    pub inputs: Vec<Vec<u16>>,
}

fn leadws_grammar(lw: &LeadWs) -> String {
    let ys = vec!["Y"; lw.ny.clamp(1, 3) as usize].join(" ");
    let a = if lw.nullable_a { "A: Aa | EMPTY;" } else { "A: Aa;" };
    format!("S: P A X | Q A {ys};\n{a}\nLayout: WS;\nterminals\nP: 'p';\nQ: 'q';\nAa: 'a';\nX: /\\s+x/;\nY: 'x';\nWS: /\\s+/;\n")
}

fn leadws_input(lw: &LeadWs, tape: &[u16]) -> String {
    const SEPS: &[&str] = &[" ", "  ", "\n", "\t ", " \n ", ""];
    let mut cur = Cursor::new(tape);
    let ny = lw.ny.clamp(1, 3) as usize;
    let mut words: Vec<&str> = match cur.pick(4) {
        0 => vec!["p", "a", "x"],
        1 => {
            let mut w = vec!["q", "a"];
            w.extend(std::iter::repeat("x").take(ny));
            w
        }
        2 => {
            let mut w = vec!["q", "a"];
            w.extend(std::iter::repeat("x").take(ny - 1));
            w
        }
        _ => (0..cur.pick(7)).map(|_| ["p", "q", "a", "x"][cur.pick(4)]).collect(),
    };
    if lw.nullable_a && cur.pick(3) == 0 && words.len() > 1 {
        words.remove(1);
    }
    let mut s = String::new();
    for (k, w) in words.iter().enumerate() {
        if k > 0 || cur.pick(4) == 0 {
            s.push_str(SEPS[cur.pick(SEPS.len())]);
        }
        s.push_str(w);
    }
    if cur.pick(3) == 0 {
        s.push_str(SEPS[cur.pick(SEPS.len())]);
    }
    s
}

/// Round trip only: with a terminal that begins with layout characters the token sequence of an
/// input depends on the parser state, so neither acceptance nor the attachment of a layout run to
/// a particular leaf is judged here; every Ok(tree) must still reproduce the consumed input.
fn check_leadws(lw: &LeadWs, st: &mut Stats) -> Outcome {
    let text = leadws_grammar(lw);
    let cfg = Cfg::lr();
    let d = match compile_or_discard(&text, &cfg, st) {
        Ok(d) => d,
        Err(Some(_)) => {
            st.discard("compiler-rejects-grammar");
            return Outcome::Pass;
        }
        Err(None) => return Outcome::Pass,
    };
    if has_conflicts(&d) {
        st.discard("conflicts");
        return Outcome::Pass;
    }
    if install(&d, &cfg).is_err() {
        return Outcome::Pass;
    }
    st.class("mode-leadws");
    for tape in &lw.inputs {
        let inp = leadws_input(lw, tape);
        let inp = &inp;
        st.sub();
        dynp::reset_steps(LR_STEPS * 4);
        let res = match guarded(|| dynp::lr_parse(inp, RunOpts::default())) {
            Ok(r) => r,
            Err(p) => return panic_outcome("parse|leadws", &p),
        };
        let tree = match res {
            Ok(t) => t,
            Err(_) => {
                st.class("leadws-rejected");
                continue;
            }
        };
        let ctx = || format!("grammar:\n{text}\ninput: {inp:?}");
        let mut leaves = vec![];
        tree.leaves(&mut leaves);
        let mut rebuilt = String::new();
        let mut nonempty_layouts = 0;
        for (k, l) in leaves.iter().enumerate() {
            if let Node::Term { text: ttext, layout, .. } = l {
                let lay = layout.as_ref().map(|x| x.1.as_str()).unwrap_or("");
                if !is_ws(lay) && !lay.is_empty() {
                    return Outcome::fail("layout-class|leadws".to_string(), format!("{}\nlayout before leaf {k} is {lay:?}", ctx()));
                }
                if !lay.is_empty() {
                    nonempty_layouts += 1;
                }
                rebuilt.push_str(lay);
                rebuilt.push_str(ttext);
            }
        }
        let end = leaves.last().map(|l| l.span().end.pos).unwrap_or(0);
        if inp.get(..end) != Some(rebuilt.as_str()) {
            return Outcome::fail(
                "roundtrip|leadws".to_string(),
                format!("{}\nrebuilt {:?} vs consumed {:?}", ctx(), rebuilt, inp.get(..end)),
            );
        }
        let rest = &inp[end..];
        if !rest.is_empty() && !is_ws(rest) {
            return Outcome::fail("trailing-not-layout|leadws".to_string(), format!("{}\nrest {rest:?}", ctx()));
        }
        if nonempty_layouts >= 1 && leaves.len() >= 3 {
            st.nontrivial(&format!("{text}\n{inp}"), || json!({"grammar": text, "mode": "leadws", "input": inp, "tree": canon_real(&d, &tree, true)}));
        }
    }
    dynp::uninstall();
    Outcome::Pass
}

fn kind_of(mode: u8) -> Option<LayoutKind> {
    match mode {
        0 => None,
        1 => Some(LayoutKind::Ws),
        2 => Some(LayoutKind::WsLine),
        3 => Some(LayoutKind::WsLineBlock),
        _ => Some(LayoutKind::WsLineBlockPlus),
    }
}

pub fn spec_of(c: &Case) -> GrammarSpec {
    let mut s = c.g.spec.clone();
    s.layout = kind_of(c.mode);
    s
}

fn variants(c: &Case, spec: &GrammarSpec, toks: &[usize]) -> Vec<gen::Rendered> {
    let kind = kind_of(c.mode);
    let mut v = vec![];
    let mut cur = Cursor::new(&[]);
    v.push(gen::render_with_layout(&spec.terms, toks, kind, true, &mut cur));
    for t in &c.layouts {
        let mut cur = Cursor::new(t);
        v.push(gen::render_with_layout(&spec.terms, toks, kind, false, &mut cur));
    }
    v
}

fn layout_ok(kind: Option<LayoutKind>, s: &str) -> bool {
    match kind {
        None => is_ws(s),
        Some(k) => is_layout(k, s) || s.is_empty(),
    }
}

impl Prop for C14 {
    type Case = Case;
    fn id(&self) -> &'static str {
        "C14"
    }
    fn strategy(&self, tier: Tier) -> BoxedStrategy<Case> {
        let (nts, inputs, nlay) = match tier {
            Tier::Quick => (5, 6..10, 3..5),
            Tier::Thorough => (7, 12..18, 5..8),
        };
        (
            gcase(gen::BnfParams { max_nts: nts, ..gen::BnfParams::lr_small() }, inputs, 24),
            prop_oneof![2 => Just(0u8), 1 => Just(1u8), 1 => Just(2u8), 2 => Just(3u8), 1 => Just(4u8)],
            proptest::collection::vec(proptest::collection::vec(any::<u16>(), 0..30), nlay),
        )
            .prop_map(|(g, mode, layouts)| Case { g, mode, layouts, leadws: None })
            .prop_flat_map(|c| {
                let plain = c.clone();
                prop_oneof![
                    15 => Just(plain),
                    1 => (1u8..=3, any::<bool>(), proptest::collection::vec(proptest::collection::vec(any::<u16>(), 0..24), 8..16))
                        .prop_map(move |(ny, nullable_a, inputs)| Case { leadws: Some(LeadWs { ny, nullable_a, inputs }), ..c.clone() }),
                ]
            })
            .boxed()
    }
    fn cases(&self, tier: Tier) -> u32 {
        match tier {
            Tier::Quick => 6000,
            Tier::Thorough => 120_000,
        }
    }
    fn rule(&self) -> String {
        "case = generated conflict-free BNF grammar (LR, generic tree builder) under one of: default \
         whitespace skipping, or a Layout rule template (whitespace; + line comments; + nested block \
         comments = the documented grammar; `LayoutItem+` variant); each derived sentence is rendered \
         with the minimal layout and with 3..5 generated layout assignments (before / between / after \
         tokens; multi-byte whitespace, comments, nested comments). For every Ok(tree): \
         concat(layout_i ++ token_i) == input[..end of last leaf] and the rest is layout; every \
         stored layout equals the generated run before that token (attachment to the right leaf) and \
         is whitespace / a sentence of the Layout template (independent recogniser). Metamorphic: all \
         re-layouts of a sentence parse Ok to the same tree modulo positions; sentences must parse; \
         with partial_parse on every rendering gives the very same tree (layout never ends the parse early); \
         non-trivial = (grammar, mode, rendering) with >= 2 non-empty layouts and a tree with >= 2 \
         interior nodes. One case in 16 is of the family `S: P A X | Q A Y{1..3}; A: Aa [| EMPTY]; \
         Layout: WS; X: /\\s+x/; Y: 'x'` (a terminal that itself begins with layout characters; 8..16 \
         inputs over p q a x with generated whitespace runs): the token sequence is then state \
         dependent, so only the round trip, the layout class and the trailing rest are judged for \
         every Ok(tree) and rejections are counted, not judged; non-trivial there = Ok tree with >= 3 \
         leaves and a non-empty layout"
            .into()
    }
    fn assumptions(&self) -> Vec<String> {
        vec![
            "LR only (the GLR parser attaches no layout: FIXME in the source, outside the property)".into(),
            "prefix-free terminals none of which starts a comment (main family); the lead-ws family judges the round trip only".into(),
        ]
    }
    fn describe(&self, case: &Case) -> Value {
        if let Some(lw) = &case.leadws {
            let inputs: Vec<String> = lw.inputs.iter().map(|t| leadws_input(lw, t)).collect();
            return json!({"grammar": leadws_grammar(lw), "mode": "leadws", "inputs": inputs});
        }
        let spec = spec_of(case);
        let bnf = case.g.spec.bnf();
        let mut inputs = vec![];
        for t in &case.g.tapes {
            let mut t2 = t.clone();
            t2.kind = 0;
            let toks = gen::tokens_for(&bnf, &t2, 8);
            for r in variants(case, &spec, &toks) {
                inputs.push(r.text);
            }
        }
        json!({"grammar": spec.render(), "mode": case.mode, "inputs": inputs})
    }
    fn check(&self, case: &Case, st: &mut Stats) -> Outcome {
        if let Some(lw) = &case.leadws {
            return check_leadws(lw, st);
        }
        let spec = spec_of(case);
        let bnf = case.g.spec.bnf();
        let text = spec.render();
        let kind = kind_of(case.mode);
        let cfg = Cfg::lr();
        match compile_or_discard(&text, &Cfg::raw(crate::compile::TT::Pager), st) {
            Ok(raw) => {
                if has_conflicts(&raw) {
                    st.discard("out-of-scope-conflicts");
                    return Outcome::Pass;
                }
            }
            Err(Some(_)) => {
                st.discard("compiler-rejects-grammar");
                return Outcome::Pass;
            }
            Err(None) => return Outcome::Pass,
        }
        let d = match compile_or_discard(&text, &cfg, st) {
            Ok(d) => d,
            Err(Some(_)) => {
                st.discard("compiler-rejects-grammar");
                return Outcome::Pass;
            }
            Err(None) => return Outcome::Pass,
        };
        if has_conflicts(&d) {
            st.discard("conflicts");
            return Outcome::Pass;
        }
        if install(&d, &cfg).is_err() {
            return Outcome::Pass;
        }
        let mode = match kind {
            None => "skip-ws".to_string(),
            Some(k) => format!("{k:?}"),
        };
        st.class(&format!("mode-{mode}"));
        let earley = Earley::new(&bnf);
        // (input, tree of a fresh parser) for the parser-reuse pass
        let mut fresh: Vec<(String, Node)> = vec![];
        for tape in &case.g.tapes {
            let mut t2 = tape.clone();
            t2.kind = 0; // sentences
            let toks = gen::tokens_for(&bnf, &t2, 8);
            if !earley.accepts(&toks) {
                continue;
            }
            let mut first_canon: Option<(String, String)> = None;
            for r in variants(case, &spec, &toks) {
                let inp = &r.text;
                st.sub();
                dynp::reset_steps(LR_STEPS * 4);
                let res = match guarded(|| dynp::lr_parse(inp, RunOpts::default())) {
                    Ok(r) => r,
                    Err(p) => return panic_outcome(&format!("parse|{mode}"), &p),
                };
                let ctx = || format!("grammar:\n{text}\ninput: {inp:?}");
                let tree = match res {
                    Ok(t) => t,
                    Err(e) => {
                        return Outcome::fail(
                            format!("metamorphic|sentence-rejected-with-layout|{mode}"),
                            format!("{}\ntokens {:?}\nerror {:?} {}", ctx(), toks, e.span, e.message),
                        )
                    }
                };
                // round trip
                let mut leaves = vec![];
                tree.leaves(&mut leaves);
                let mut rebuilt = String::new();
                let mut nonempty_layouts = 0;
                for (k, l) in leaves.iter().enumerate() {
                    if let Node::Term { text: ttext, layout, .. } = l {
                        let lay = layout.as_ref().map(|x| x.1.as_str()).unwrap_or("");
                        if !layout_ok(kind, lay) {
                            return Outcome::fail(
                                format!("layout-class|{mode}"),
                                format!("{}\nlayout before leaf {k} is {lay:?}", ctx()),
                            );
                        }
                        if k < r.layouts.len() && lay != r.layouts[k] {
                            return Outcome::fail(
                                format!("layout-attachment|{mode}"),
                                format!("{}\nlayout stored before leaf {k} is {lay:?} but the input has {:?} there", ctx(), r.layouts[k]),
                            );
                        }
                        if !lay.is_empty() {
                            nonempty_layouts += 1;
                        }
                        rebuilt.push_str(lay);
                        rebuilt.push_str(ttext);
                    }
                }
                let end = leaves.last().map(|l| l.span().end.pos).unwrap_or(0);
                if inp.get(..end) != Some(rebuilt.as_str()) {
                    return Outcome::fail(
                        format!("roundtrip|{mode}"),
                        format!("{}\nrebuilt {:?} vs consumed {:?}", ctx(), rebuilt, inp.get(..end)),
                    );
                }
                let rest = &inp[end..];
                if !layout_ok(kind, rest) {
                    return Outcome::fail(format!("trailing-not-layout|{mode}"), format!("{}\nrest {rest:?}", ctx()));
                }
                if leaves.len() != toks.len() {
                    return Outcome::fail(format!("leaves-count|{mode}"), ctx());
                }
                // metamorphic
                let canon = canon_real(&d, &tree, false);
                match &first_canon {
                    None => first_canon = Some((canon, inp.clone())),
                    Some((c0, i0)) => {
                        if *c0 != canon {
                            return Outcome::fail(
                                format!("metamorphic|tree-changed|{mode}"),
                                format!("{}\ntree: {canon}\nbut for {i0:?}: {c0}", ctx()),
                            );
                        }
                    }
                }
                if nonempty_layouts >= 2 && tree.interior_count() >= 2 {
                    st.nontrivial(&format!("{text}\n{inp}"), || {
                        json!({"grammar": text, "mode": mode, "input": inp,
                               "tree": canon_real(&d, &tree, true)})
                    });
                }
                // with partial parsing enabled the same tree must be built (a sentence followed
                // by nothing but layout is consumed as a whole; layout never ends the parse early)
                dynp::reset_steps(LR_STEPS * 4);
                match guarded(|| dynp::lr_parse(inp, RunOpts { partial: true, skip_ws: true })) {
                    Err(p) => return panic_outcome(&format!("parse|partial-on|{mode}"), &p),
                    Ok(Err(e)) => {
                        return Outcome::fail(
                            format!("partial-on|sentence-rejected-with-layout|{mode}"),
                            format!("{}\nerror {:?} {}", ctx(), e.span, e.message),
                        )
                    }
                    Ok(Ok(pt)) => {
                        if pt != tree {
                            return Outcome::fail(
                                format!("partial-on|tree-or-layout-differs|{mode}"),
                                format!("{}\npartial_parse on : {}\npartial_parse off: {}", ctx(), canon_real(&d, &pt, true), canon_real(&d, &tree, true)),
                            );
                        }
                    }
                }
                fresh.push((r.text.clone(), tree));
            }
        }
        // all inputs once more through ONE parser instance: tokens, spans and the layout stored
        // with every leaf (text and position inside the input buffer) must be those of a fresh
        // parser, which were checked above
        {
            // a rejected input (the first half of the sentence followed by a foreign character) goes
            // in front of every second sentence: what a failed parse leaves behind in the parser
            // object must not show up in the next tree
            let broken: Vec<String> = fresh
                .iter()
                .map(|x| {
                    let cut = (0..=x.0.len() / 2).rev().find(|i| x.0.is_char_boundary(*i)).unwrap_or(0);
                    format!("{}\u{1}", &x.0[..cut])
                })
                .collect();
            let mut texts: Vec<&str> = vec![];
            let mut origin: Vec<Option<usize>> = vec![];
            for (k, x) in fresh.iter().enumerate() {
                if k % 2 == 1 {
                    texts.push(broken[k].as_str());
                    origin.push(None);
                }
                texts.push(x.0.as_str());
                origin.push(Some(k));
            }
            for (j, item) in dynp::lr_parse_session(&texts, RunOpts::default(), LR_STEPS * 4).into_iter().enumerate() {
                let k = match origin[j] {
                    Some(k) => k,
                    None => {
                        if let Err(p) = item {
                            return panic_outcome(&format!("reused-parser|parse|{mode}"), &p);
                        }
                        continue;
                    }
                };
                st.sub();
                let ctx = || format!("grammar:\n{text}\none parser instance parsed, in order: {:?}\ninput #{j}: {:?}", &texts[..=j], texts[j]);
                match item {
                    Err(p) => return panic_outcome(&format!("reused-parser|parse|{mode}"), &p),
                    Ok(Err(e)) => {
                        return Outcome::fail(
                            format!("reused-parser|sentence-rejected-with-layout|{mode}"),
                            format!("{}\nerror {:?} {}", ctx(), e.span, e.message),
                        )
                    }
                    Ok(Ok(t)) => {
                        if t != fresh[k].1 {
                            return Outcome::fail(
                                format!("reused-parser|tree-or-layout-differs|{mode}"),
                                format!("{}\nreused: {:?}\nfresh : {:?}", ctx(), t, fresh[k].1),
                            );
                        }
                    }
                }
            }
            st.class("reused-parser-session");
        }
        dynp::uninstall();
        Outcome::Pass
    }
}
