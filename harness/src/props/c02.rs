//! C02 — every successful LR parse yields a valid derivation tree of the consumed input.
//! Validity predicate on the tree (checked against the spec, not the dump) + metamorphic
//! relation partial_parse off => on.

use super::common::*;
use crate::compile::{compile, guarded, has_conflicts, Algo, Cfg, CompileErr, TT};
use crate::dynp::{self, Node, RunOpts};
use crate::gen::{self, Cursor, LayoutStyle};
use crate::runner::{Outcome, Prop, Stats, Tier};
use crate::spec::*;
use proptest::prelude::*;
use rustemo_compiler::verif::Dump;
use serde::{Deserialize, Serialize};
use serde_json::{json, Value};

pub struct C02;

#[derive(Clone, Debug, Serialize, Deserialize)]
pub struct Case {
    pub g: GCase,
    pub meta_tape: Vec<u16>,
    pub term_assoc: bool,
    pub ps: bool,
    pub pse: bool,
    pub pager: bool,
    /// 0 = default whitespace skipping, 1..5 = Layout rule templates (5: a layout item made of two
    /// tokens; every fourth input then carries a broken layout item between two tokens)
    #[serde(default)]
    pub mode: u8,
}

fn kind_of(mode: u8) -> Option<LayoutKind> {
    match mode {
        0 => None,
        1 => Some(LayoutKind::Ws),
        2 => Some(LayoutKind::WsLine),
        3 => Some(LayoutKind::WsLineBlock),
        4 => Some(LayoutKind::WsLineBlockPlus),
        _ => Some(LayoutKind::WsPair),
    }
}

pub fn spec_of(c: &Case) -> GrammarSpec {
    let mut s = c.g.spec.clone();
    let mut cur = Cursor::new(&c.meta_tape);
    gen::sprinkle_meta(&mut s, &mut cur, c.term_assoc);
    s.layout = kind_of(c.mode);
    s
}

fn render(c: &Case, bnf: &Bnf, ii: usize) -> (gen::Rendered, Vec<usize>) {
    let tape = &c.g.tapes[ii];
    let toks = gen::tokens_for(bnf, tape, 10);
    let mut cur = Cursor::new(&tape.tape);
    if c.mode > 0 {
        let mut r = gen::render_with_layout(&c.g.spec.terms, &toks, kind_of(c.mode), ii % 3 == 2, &mut cur);
        if c.mode == 5 && ii % 4 == 3 && !toks.is_empty() {
            // half a layout item right in front of token k: the layout parser shifts `~` and
            // then fails; nothing behind this point may end up in a tree
            let k = cur.pick(toks.len());
            let at = r.spans[k].0;
            r.text.insert(at, '~');
            for sp in r.spans.iter_mut().skip(k) {
                sp.0 += 1;
                sp.1 += 1;
            }
        }
        return (r, toks);
    }
    let style = if ii % 2 == 0 { LayoutStyle::Ascii } else { LayoutStyle::Minimal };
    (gen::render_tokens(&c.g.spec.terms, &toks, style, &mut cur), toks)
}

/// symbol name of a tree node
fn node_sym<'a>(d: &'a Dump, n: &Node) -> &'a str {
    match n {
        Node::Term { kind, .. } => &d.terminals[*kind].name,
        Node::NonTerm { prod, .. } => &d.nonterminals[d.productions[*prod].nonterminal].name,
    }
}

/// Every interior node must be an alternative of the *spec* whose symbols equal the child
/// symbols (exact length).
fn check_derivation(spec: &GrammarSpec, d: &Dump, n: &Node) -> Result<(), (String, String)> {
    if let Node::NonTerm { prod, children, .. } = n {
        let dp = d.productions.get(*prod).ok_or(("unknown-production".to_string(), format!("{prod}")))?;
        let name = &d.nonterminals[dp.nonterminal].name;
        let rule = spec
            .rules
            .iter()
            .find(|r| &r.name == name)
            .ok_or(("node-of-unknown-rule".to_string(), name.clone()))?;
        let alt = rule.alts.get(dp.ntidx).ok_or(("unknown-alternative".to_string(), format!("{name}#{}", dp.ntidx)))?;
        let want: Vec<&str> = alt.syms.iter().map(|u| spec.sym_name(u.sym)).collect();
        let got: Vec<&str> = children.iter().map(|c| node_sym(d, c)).collect();
        if want != got {
            let cls = if got.len() != want.len() { "children-count" } else { "children-symbols" };
            return Err((cls.into(), format!("{name}#{}: rhs {:?} but children {:?}", dp.ntidx, want, got)));
        }
        for c in children {
            check_derivation(spec, d, c)?;
        }
    }
    Ok(())
}

/// The validity predicate of C02 for one Ok(tree): (signature class, message) on failure.
#[allow(clippy::too_many_arguments)]
fn validate_tree(
    spec: &GrammarSpec,
    d: &Dump,
    t: &Node,
    partial: bool,
    inp: &str,
    toks: &[usize],
    spans: &[(usize, usize)],
) -> Result<(), (String, String)> {
    // the consumed input is tokens and layout, nothing else: every gap between two leaves (and
    // before the first) is whitespace / a sentence of the Layout rule
    {
        let mut leaves = vec![];
        t.leaves(&mut leaves);
        let mut prev = 0usize;
        for (k, l) in leaves.iter().enumerate() {
            let sp = l.span();
            if sp.start.pos < prev || sp.start.pos > inp.len() || !inp.is_char_boundary(sp.start.pos) || !inp.is_char_boundary(prev) {
                return Err(("leaf-order".into(), format!("leaf {k} starts at {} before the end of the previous leaf {prev}", sp.start.pos)));
            }
            let gap = &inp[prev..sp.start.pos];
            let ok = gap.is_empty()
                || match spec.layout {
                    None => crate::oracle::layoutmodel::is_ws(gap),
                    Some(kind) => crate::oracle::layoutmodel::is_layout(kind, gap),
                };
            if !ok {
                return Err((
                    "gap-is-not-layout".into(),
                    format!("the text {gap:?} between leaf {} and leaf {k} is neither a token nor layout, yet the tree spans it", k as i64 - 1),
                ));
            }
            prev = sp.end.pos;
        }
    }
    let start_name = &spec.rules[0].name;
    if node_sym(d, t) != start_name || matches!(t, Node::Term { .. }) {
        return Err(("root-not-start".into(), String::new()));
    }
    check_derivation(spec, d, t)?;
    let mut leaves = vec![];
    t.leaves(&mut leaves);
    if !partial && leaves.len() != toks.len() {
        return Err(("leaves-count".into(), format!("{} leaves for {} tokens", leaves.len(), toks.len())));
    }
    if leaves.len() > toks.len() {
        return Err(("leaves-invented".into(), String::new()));
    }
    for (k, l) in leaves.iter().enumerate() {
        if let Node::Term { kind, span, text: ttext, .. } = l {
            let want = &spec.terms[toks[k]];
            let wspan = spans[k];
            if d.terminals[*kind].name != want.name || ttext != &inp[wspan.0..wspan.1] || (span.start.pos, span.end.pos) != wspan {
                return Err((
                    "leaf-mismatch".into(),
                    format!(
                        "leaf {k}: {}({ttext:?})@{}-{} but token {k} of the input is {}({:?})@{}-{}",
                        d.terminals[*kind].name, span.start.pos, span.end.pos, want.name, &inp[wspan.0..wspan.1], wspan.0, wspan.1
                    ),
                ));
            }
        }
    }
    Ok(())
}

impl Prop for C02 {
    type Case = Case;
    fn id(&self) -> &'static str {
        "C02"
    }
    fn strategy(&self, tier: Tier) -> BoxedStrategy<Case> {
        let (nts, inputs) = match tier {
            Tier::Quick => (4, 12..20),
            Tier::Thorough => (6, 24..36),
        };
        (
            gcase(gen::BnfParams { max_nts: nts, ambiguous_ok: true, ..gen::BnfParams::lr_small() }, inputs, 24),
            proptest::collection::vec(any::<u16>(), 0..60),
            any::<bool>(),
            any::<bool>(),
            any::<bool>(),
            any::<bool>(),
            prop_oneof![3 => Just(0u8), 1 => Just(1u8), 1 => Just(2u8), 1 => Just(3u8), 1 => Just(4u8), 2 => Just(5u8)],
        )
            .prop_map(|(g, meta_tape, term_assoc, ps, pse, pager, mode)| Case { g, meta_tape, term_assoc, ps, pse, pager, mode })
            .boxed()
    }
    fn cases(&self, tier: Tier) -> u32 {
        match tier {
            Tier::Quick => 8000,
            Tier::Thorough => 160_000,
        }
    }
    fn rule(&self) -> String {
        "case = generated (mostly conflicting) BNF grammar with random priorities / associativity / \
         nops / nopse on productions, rules and terminals x prefer_shifts x prefer_shifts_over_empty \
         x {LALR, LALR_PAGER} x {default whitespace skipping, five Layout-rule templates (whitespace / line comments / nested block comments / non-empty variant / a two-token layout item, with half an item injected in front of a token in every fourth input)}, LR algorithm; grammars whose table still has conflicts are discarded \
         (the compiler rejects them); inputs = sentences, mutations, random token strings. For every \
         Ok(tree) with partial_parse off and on: root is the start rule; every interior node is an \
         alternative of the spec whose symbols equal the child symbols exactly; every gap between leaves is whitespace / a sentence of the Layout rule; leaves (kind, text) \
         equal the generator's token list (all of it when partial is off, a prefix when on) and \
         token spans equal the generator's spans; parse_off(x)=Ok(t) => parse_on(x)=Ok(t). No claim \
         about which inputs are accepted. non-trivial = (grammar, settings, input) where >= 1 \
         conflict cell of the raw table was resolved and the tree has >= 2 interior nodes"
            .into()
    }
    fn assumptions(&self) -> Vec<String> {
        vec!["prefix-free terminals: the generator's token list is the only tokenisation of the rendered text".into()]
    }
    fn describe(&self, case: &Case) -> Value {
        let spec = spec_of(case);
        let bnf = case.g.spec.bnf();
        let inputs: Vec<String> = (0..case.g.tapes.len()).map(|i| render(case, &bnf, i).0.text).collect();
        json!({"grammar": spec.render(), "prefer_shifts": case.ps, "prefer_shifts_over_empty": case.pse,
               "pager": case.pager, "inputs": inputs})
    }
    fn check(&self, case: &Case, st: &mut Stats) -> Outcome {
        let spec = spec_of(case);
        let bnf = case.g.spec.bnf();
        let text = spec.render();
        let tt = if case.pager { TT::Pager } else { TT::Lalr };
        let cfg = Cfg {
            algo: Algo::LR,
            table: Some(tt),
            prefer_shifts: Some(case.ps),
            pse: Some(case.pse),
            most_specific: None,
            longest: None,
            order: None,
        };
        let d = match compile(&text, &cfg) {
            Ok(d) => d,
            Err(CompileErr::Err(_)) => {
                st.discard("compiler-rejects-grammar");
                return Outcome::Pass;
            }
            Err(CompileErr::Panic(_)) => {
                st.discard("compiler-panic(C16)");
                return Outcome::Pass;
            }
        };
        if has_conflicts(&d) {
            st.discard("conflicts-remain(rejected-by-compiler)");
            return Outcome::Pass;
        }
        st.class(&format!("layout-mode-{}", case.mode));
        let resolved = match compile(&spec.without_meta().render(), &Cfg::raw(tt)) {
            Ok(raw) => has_conflicts(&raw),
            _ => false,
        };
        st.class(if resolved { "grammar-with-resolved-conflicts" } else { "grammar-conflict-free" });
        if install(&d, &cfg).is_err() {
            return Outcome::Pass;
        }
        // (input, tokens, spans) of the inputs parsed below, for the parser-reuse pass
        let mut session: Vec<(String, Vec<usize>, Vec<(usize, usize)>)> = vec![];
        for ii in 0..case.g.tapes.len() {
            let (r, toks) = render(case, &bnf, ii);
            let inp = &r.text;
            st.sub();
            session.push((r.text.clone(), toks.clone(), r.spans.clone()));
            let mut results = vec![];
            for partial in [false, true] {
                dynp::reset_steps(LR_STEPS);
                let res = match guarded(|| dynp::lr_parse(inp, RunOpts { partial, skip_ws: true })) {
                    Ok(r) => r,
                    Err(p) => match {
                        if std::env::var_os("VERIF_DEBUG_HANG").is_some() && is_step_panic(&p) {
                            eprintln!("HANG-LR grammar:\n{text}\nps={} pse={} input {inp:?}", case.ps, case.pse);
                        }
                        parse_panic(&format!("parse|partial={partial}"), &p, st)
                    } {
                        Some(o) => return o,
                        None => {
                            // a looping table loops on (nearly) every input: give up on this grammar
                            dynp::uninstall();
                            return Outcome::Pass;
                        }
                    },
                };
                let ctx = || {
                    format!(
                        "grammar:\n{text}\nsettings: prefer_shifts={} prefer_shifts_over_empty={} table={} partial={partial}\ninput: {inp:?}",
                        case.ps, case.pse, tt.name()
                    )
                };
                if let Ok(t) = &res {
                    let mode = if partial { "partial-on" } else { "partial-off" };
                    if let Err((cls, msg)) = validate_tree(&spec, &d, t, partial, inp, &toks, &r.spans) {
                        return Outcome::fail(format!("{cls}|{mode}"), format!("{}\n{msg}\ntree: {}", ctx(), canon_real(&d, t, true)));
                    }
                    let mut leaves = vec![];
                    t.leaves(&mut leaves);
                    if resolved && t.interior_count() >= 2 {
                        st.nontrivial(&format!("{text}\n{:?}\n{inp}\n{partial}", (case.ps, case.pse, case.pager)), || {
                            json!({"grammar": text, "prefer_shifts": case.ps, "prefer_shifts_over_empty": case.pse,
                                   "table": tt.name(), "partial": partial, "input": inp, "tree": canon_real(&d, t, true)})
                        });
                    }
                    st.class(if partial { "ok-partial-on" } else { "ok-partial-off" });
                    if partial && leaves.len() < toks.len() {
                        st.class("partial-prefix-accepted");
                    }
                }
                results.push(Some(res));
            }
            if let (Some(Some(Ok(a))), Some(b)) = (results.first(), results.get(1)) {
                let ctx = format!("grammar:\n{text}\ninput: {inp:?}");
                match b {
                    Some(Ok(bt)) => {
                        if a != bt {
                            return Outcome::fail(
                                "metamorphic|partial-on-parses-differently",
                                format!("{ctx}\noff: {}\non : {}", canon_real(&d, a, true), canon_real(&d, bt, true)),
                            );
                        }
                    }
                    Some(Err(e)) => {
                        return Outcome::fail("metamorphic|partial-on-rejects", format!("{ctx}\n{}", e.message))
                    }
                    None => {}
                }
            }
        }
        // one parser instance for the whole sequence of inputs (valid and invalid interleaved),
        // as a user who keeps a parser around does: every Ok must still be a derivation of ITS input
        for partial in [false, true] {
            let texts: Vec<&str> = session.iter().map(|x| x.0.as_str()).collect();
            let items = dynp::lr_parse_session(&texts, RunOpts { partial, skip_ws: true }, LR_STEPS);
            let mut seen_err = false;
            for (k, item) in items.iter().enumerate() {
                st.sub();
                let (inp, toks, spans) = &session[k];
                let ctx = || {
                    format!(
                        "grammar:\n{text}\nsettings: prefer_shifts={} prefer_shifts_over_empty={} table={} partial={partial}\none parser instance parsed, in order: {:?}\ninput #{k}: {inp:?}",
                        case.ps, case.pse, tt.name(), &texts[..=k]
                    )
                };
                match item {
                    Err(p) => match parse_panic(&format!("reused-parser|parse|partial={partial}"), p, st) {
                        Some(o) => return o,
                        None => break,
                    },
                    Ok(Err(_)) => seen_err = true,
                    Ok(Ok(t)) => {
                        if let Err((cls, msg)) = validate_tree(&spec, &d, t, partial, inp, toks, spans) {
                            return Outcome::fail(
                                format!("reused-parser|{cls}|{}", if partial { "partial-on" } else { "partial-off" }),
                                format!("{}\n{msg}\ntree: {}", ctx(), canon_real(&d, t, true)),
                            );
                        }
                        if seen_err {
                            st.class("reused-parser-ok-after-err");
                        }
                    }
                }
            }
        }
        dynp::uninstall();
        Outcome::Pass
    }
}
