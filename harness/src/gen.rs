//! proptest strategies for grammars and inputs. All randomness lives in the strategies;
//! everything derived from a generated value (sentences, mutations, layout) is a pure
//! function of generated "tapes", so shrinking and replay work on the whole case.

use crate::spec::*;
use proptest::prelude::*;
use serde::{Deserialize, Serialize};

// ---------------------------------------------------------------------------------------
// tapes

#[derive(Clone, Debug, PartialEq, Eq, Serialize, Deserialize)]
pub struct InputTape {
    pub kind: u8,
    pub tape: Vec<u16>,
}

pub struct Cursor<'a> {
    v: &'a [u16],
    i: usize,
}
impl<'a> Cursor<'a> {
    pub fn new(v: &'a [u16]) -> Self {
        Cursor { v, i: 0 }
    }
    pub fn next(&mut self) -> u16 {
        let r = self.v.get(self.i).copied().unwrap_or(0);
        self.i += 1;
        r
    }
    /// monotone map onto 0..n (n > 0)
    pub fn pick(&mut self, n: usize) -> usize {
        pick(self.next(), n)
    }
    pub fn exhausted(&self) -> bool {
        self.i >= self.v.len()
    }
}

#[inline]
pub fn pick(v: u16, n: usize) -> usize {
    debug_assert!(n > 0);
    ((v as usize) * n) >> 16
}

pub fn tapes(n: std::ops::Range<usize>, len: usize) -> impl Strategy<Value = Vec<InputTape>> {
    proptest::collection::vec(
        (0u8..10, proptest::collection::vec(any::<u16>(), 0..len))
            .prop_map(|(kind, tape)| InputTape { kind, tape }),
        n,
    )
}

// ---------------------------------------------------------------------------------------
// terminal families

/// T-plain: prefix-free string recognisers + two regex families over disjoint alphabets.
/// Every text has at most one tokenisation, whichever subset of terminals is tried.
pub fn tplain_pool() -> Vec<TermSpec> {
    let mut v = vec![
        TermSpec::str("Ta", "a"),
        TermSpec::str("Tb", "b"),
        TermSpec::str("Tc", "c"),
        TermSpec::str("Td", "d"),
        TermSpec::str("Plus", "+"),
        TermSpec::str("Star", "*"),
        TermSpec::str("Minus", "-"),
        TermSpec::str("LPar", "("),
        TermSpec::str("RPar", ")"),
        TermSpec::str("Comma", ","),
        TermSpec::str("Semi", ";"),
        TermSpec::str("KwIf", "if"),
        TermSpec::str("KwThen", "then"),
        TermSpec::str("KwElse", "else"),
        TermSpec::str("KwEnd", "end"),
        TermSpec::str("Bang", "!"),
        TermSpec::str("Eq", "="),
        TermSpec::str("Lt", "<"),
    ];
    v.push(TermSpec::regex("Num", "\\d+", &["1", "42", "007", "9"]));
    v.push(TermSpec::regex("Id", "[x-z]+", &["x", "yz", "zzx", "y"]));
    v
}

/// T-unicode additions: multi-byte string terminals and regexes over non-ASCII ranges.
pub fn tunicode_pool(long_tokens: bool) -> Vec<TermSpec> {
    let mut han = vec!["中文", "漢"];
    if long_tokens {
        // > 50 bytes of 3-byte characters
        han.push("中文中文中文中文中文中文中文中文中文中文中文中文中文中文中文中文中文中文中文中文");
    }
    vec![
        TermSpec::str("Ue", "é"),
        TermSpec::str("Uarrow", "→"),
        TermSpec::str("Ukana", "あい"),
        TermSpec::regex("Ugreek", "[α-ω]+", &["αβγ", "ω", "λλ"]),
        TermSpec::regex("Uhan", "[一-龥]+", &han),
        // a token that spans lines (positions after it depend on the newlines inside it)
        TermSpec::regex("Mline", "\\[[a-zé\\n]*\\]", &["[a\nb]", "[\n]", "[é\n\nz]", "[ab]"]),
    ]
}

pub const NT_NAMES: [&str; 10] = ["S", "A", "B", "C", "D", "E", "F", "G", "H", "K"];

// ---------------------------------------------------------------------------------------
// G-bnf

#[derive(Clone, Debug)]
pub struct BnfParams {
    pub max_nts: usize,
    pub max_alts: usize,
    pub max_syms: usize,
    pub max_terms: usize,
    /// allow duplicate alternatives / fully free-form alternatives (more ambiguity)
    pub ambiguous_ok: bool,
    pub pool: Pool,
    pub templates: bool,
    /// every grammar is a literature template (plus the optional perturbation)
    pub templates_only: bool,
    /// restrict the templates to these indices (empty = all)
    pub template_set: &'static [usize],
}

#[derive(Clone, Copy, Debug, PartialEq, Eq)]
pub enum Pool {
    Plain,
    /// unicode terminals first; `true` adds a > 50 byte sample of 3-byte characters
    Unicode(bool),
    /// overlapping string / regex terminals over {a,b,c}
    Overlap,
}

/// T-overlap: overlapping recognisers over the alphabet {a,b,c}; no regex matches the empty
/// string.
pub fn toverlap_pool() -> Vec<TermSpec> {
    vec![
        TermSpec::str("Oa", "a"),
        TermSpec::str("Oab", "ab"),
        TermSpec::str("Oabc", "abc"),
        TermSpec::str("Ob", "b"),
        TermSpec::str("Obc", "bc"),
        TermSpec::str("Oaa", "aa"),
        TermSpec::str("Oc", "c"),
        TermSpec::regex("Ra", "a+", &["a", "aa", "aaa"]),
        TermSpec::regex("Rab", "[ab]+", &["ab", "ba", "a", "bb"]),
        TermSpec::regex("Rabq", "ab?", &["a", "ab"]),
        TermSpec::regex("Raorb", "(a|b)", &["a", "b"]),
        TermSpec::regex("Rw", "\\w+", &["abc", "cab", "c"]),
        TermSpec::regex("Rbc", "b+c?", &["b", "bc", "bbc"]),
        // top-level alternation: must be anchored as a whole (`^(?:ab|b)`, not `^ab|b`)
        TermSpec::regex("Ralt", "ab|c", &["ab", "c"]),
        TermSpec::regex("Ralt2", "ba|c|aab", &["ba", "c", "aab"]),
    ]
}

impl BnfParams {
    pub fn lr_small() -> Self {
        BnfParams {
            max_nts: 5,
            max_alts: 4,
            max_syms: 4,
            max_terms: 5,
            ambiguous_ok: false,
            pool: Pool::Plain,
            templates: true,
            templates_only: false,
            template_set: &[],
        }
    }
    pub fn glr_small() -> Self {
        BnfParams { ambiguous_ok: true, max_nts: 4, max_terms: 4, ..Self::lr_small() }
    }
}

/// T-wide: more than 20 terminals expected in one state: ten pairs of regexes that tie on the
/// samples of the first (same priority, both regexes, equal length: grammar order decides),
/// followed by keywords (most specific / sort key differs from the regexes before them).
pub fn twide_pool() -> Vec<TermSpec> {
    let mut v = vec![];
    for (i, c) in "abcdefghij".chars().enumerate() {
        let w = format!("{c}xy");
        let w2 = format!("{c}z");
        let d = format!("{c}1x");
        v.push(TermSpec::regex(&format!("W{i}"), &format!("{c}[a-z]+"), &[w.as_str(), w2.as_str()]));
        v.push(TermSpec::regex(&format!("I{i}"), &format!("{c}[a-z0-9]+"), &[d.as_str(), w.as_str()]));
    }
    for (n, k) in [("Ka", "axy"), ("Kb", "bz"), ("Kq", "q"), ("Kqq", "qq")] {
        v.push(TermSpec::str(n, k));
    }
    v
}

#[derive(Clone, Debug)]
struct RawAlt {
    syms: Vec<(bool, u16)>,
    guard: bool,
}

#[derive(Clone, Debug)]
struct RawG {
    term_mask: u32,
    rules: Vec<(Vec<RawAlt>, Vec<u16>)>, // (alts, base alt symbols)
    mixer: u8,
    template: u16,
    perm: Vec<u16>,
}

fn raw_alt(max_syms: usize) -> impl Strategy<Value = RawAlt> {
    (
        proptest::collection::vec((prop::bool::weighted(0.45), any::<u16>()), 0..=max_syms),
        prop::bool::weighted(0.8),
    )
        .prop_map(|(syms, guard)| RawAlt { syms, guard })
}

fn raw_g(p: &BnfParams) -> impl Strategy<Value = RawG> {
    let max_syms = p.max_syms;
    let max_alts = p.max_alts;
    (
        any::<u32>(),
        proptest::collection::vec(
            (
                proptest::collection::vec(raw_alt(max_syms), 0..max_alts),
                proptest::collection::vec(any::<u16>(), 0..=2usize.min(max_syms)),
            ),
            1..=p.max_nts,
        ),
        0u8..10,
        any::<u16>(),
        proptest::collection::vec(any::<u16>(), 8),
    )
        .prop_map(|(term_mask, rules, mixer, template, perm)| RawG {
            term_mask,
            rules,
            mixer,
            template,
            perm,
        })
}

fn select_terms(pool: &[TermSpec], mask: u32, max_terms: usize, min_terms: usize) -> Vec<TermSpec> {
    let mut out: Vec<TermSpec> = vec![];
    for (i, t) in pool.iter().enumerate() {
        if mask & (1 << (i % 32)) != 0 && out.len() < max_terms {
            out.push(t.clone());
        }
    }
    let mut i = 0;
    while out.len() < min_terms && i < pool.len() {
        if !out.iter().any(|t| t.name == pool[i].name) {
            out.push(pool[i].clone());
        }
        i += 1;
    }
    out
}

/// Literature shapes; lowercase letters are terminal placeholders, upper-case nonterminals.
/// (name, list of alternatives as whitespace separated symbols; "" = EMPTY)
const TEMPLATES: &[&[(&str, &[&str])]] = &[
    // 0 Pager / Bison "mysterious conflict": LR(1) but not LALR(1)
    &[("S", &["a A d", "b B d", "a B e", "b A e"]), ("A", &["c"]), ("B", &["c"])],
    // 1 same with nullable tails
    &[("S", &["a A d C", "b B d", "a B e C", "b A e"]), ("A", &["c"]), ("B", &["c"]), ("C", &["", "a"])],
    // 2 dangling else (ambiguous)
    &[("S", &["a E b S", "a E b S c S", "d"]), ("E", &["e"])],
    // 3 expression ladder (LALR)
    &[("S", &["S a A", "A"]), ("A", &["A b B", "B"]), ("B", &["c S d", "e"])],
    // 4 ambiguous expressions
    &[("S", &["S a S", "S b S", "c S d", "e"])],
    // 5 nullable list with separators
    &[("S", &["A"]), ("A", &["A a B", "B"]), ("B", &["", "b", "c A d"])],
    // 6 palindromes (non-LR, unambiguous)
    &[("S", &["a S a", "b S b", ""])],
    // 7 highly ambiguous
    &[("S", &["S S", "a"])],
    // 8 hidden left recursion
    &[("S", &["A S b", "c"]), ("A", &["", "a"])],
    // 9 hidden right recursion / right nullable
    &[("S", &["a S A", "b"]), ("A", &["", "c"])],
    // 10 right-nullable chain
    &[("S", &["a A B C"]), ("A", &["", "b"]), ("B", &["", "c"]), ("C", &["", "d"])],
    // 11 LR(1)-not-LALR with deeper contexts (lalrpop 768 style)
    &[("S", &["a A c", "a B d", "b A d", "b B c"]), ("A", &["e C"]), ("B", &["e C"]), ("C", &["", "a"])],
    // 12 optional prefix and suffix
    &[("S", &["A b B"]), ("A", &["", "a", "A a"]), ("B", &["", "c B"])],
    // 13 nested lists
    &[("S", &["S A", ""]), ("A", &["a B b"]), ("B", &["B c", ""])],
    // 14 unit chains with nullable
    &[("S", &["A"]), ("A", &["B", "a A"]), ("B", &["C", "b"]), ("C", &["", "c"])],
    // 15 Knuth-like LR(1) needing lookahead
    &[("S", &["A a", "B b"]), ("A", &["c A", "c"]), ("B", &["c B", "c"])],
    // 16 bounded ambiguity
    &[("S", &["A", "B"]), ("A", &["a A b", "a b"]), ("B", &["a B b", "a b"])],
    // 17 reduce-enough-empty style
    &[("S", &["A B C a"]), ("A", &["", "b"]), ("B", &["", "b"]), ("C", &["", "b"])],
    // 18 epsilon in the middle
    &[("S", &["a A b", "a B c"]), ("A", &[""]), ("B", &[""])],
    // 19 state with permuted kernel order candidates
    &[("S", &["a A", "b B"]), ("A", &["c d", "c e"]), ("B", &["c e", "c d"])],
    // 20 two closure paths of different length to a nullable bottom behind unit chains, plus a
    //    second context that merges into the same states (late lookahead propagation)
    &[
        ("S", &["B a", "C", "c F b"]),
        ("C", &["D"]),
        ("D", &["E"]),
        ("E", &["B b"]),
        ("B", &["F"]),
        ("F", &["G"]),
        ("G", &["d", ""]),
    ],
    // 21 self-loop state whose kernel item gets a lookahead only over the loop
    &[("S", &["A e", "a a A b b"]), ("A", &["B", "C"]), ("B", &["c D"]), ("C", &["c E d"]), ("E", &["D", "e"]), ("D", &["e E"])],
    // 22 left recursion whose non-terminal is nullable only through another rule (FIRST of the
    //    recursive tail must reach FIRST(A))
    &[("S", &["B A e"]), ("B", &["a"]), ("A", &["A b", "C"]), ("C", &["c", ""])],
    // 23 two trailing nullables with hidden right recursion: one state reduces the same
    //    production with different right-nulled lengths
    &[("S", &["A", "B e"]), ("A", &["B C"]), ("B", &["a", ""]), ("C", &["A c", ""])],
    // 24 hidden right recursion behind the first of two nullable tail symbols (intermediate
    //    right-nulled reduction lengths are needed when an existing head gets a new edge)
    &[("S", &["a B C"]), ("B", &["b S", ""]), ("C", &["c", ""])],
    // 25 right recursion through a unit production (length-1 reductions over late edges)
    &[("S", &["A", "d"]), ("A", &["a b S"])],
    // 26 indirect left recursion through a unit chain with a second, merged context
    &[("S", &["A", "a A b"]), ("A", &["B"]), ("B", &["C"]), ("C", &["A b", ""])],
    // 27 hidden right recursion whose tail is nullable only indirectly
    &[("S", &["a S A", "b"]), ("A", &["B"]), ("B", &[""])],
];

/// right-nullable shapes (for right-nulled table cells)
pub const RN_TEMPLATES: &[usize] = &[5, 8, 9, 10, 12, 13, 14, 17, 23, 24, 26, 27];
/// the same, one by one (for enumeration)
pub const RN_SINGLE: &[&[usize]] = &[&[5], &[8], &[9], &[10], &[12], &[13], &[14], &[17], &[23], &[24], &[26], &[27]];

fn build_template(raw: &RawG, pool: &[TermSpec], set: &[usize]) -> GrammarSpec {
    let tpl = if set.is_empty() { TEMPLATES[pick(raw.template, TEMPLATES.len())] } else { TEMPLATES[set[pick(raw.template, set.len())]] };
    // injection of placeholders a..e onto distinct pool terminals
    let mut avail: Vec<usize> = (0..pool.len()).collect();
    let mut map: Vec<usize> = vec![];
    for k in 0..5 {
        let i = pick(raw.perm[k], avail.len());
        map.push(avail.remove(i));
    }
    let mut used: Vec<usize> = vec![];
    let nt_index = |n: &str| tpl.iter().position(|(name, _)| *name == n).unwrap();
    let mut rules = vec![];
    let term_of = |c: char, used: &mut Vec<usize>| -> usize {
        let pi = map[(c as u8 - b'a') as usize];
        if let Some(p) = used.iter().position(|u| *u == pi) {
            p
        } else {
            used.push(pi);
            used.len() - 1
        }
    };
    for (name, alts) in tpl.iter() {
        let mut aspecs = vec![];
        for a in alts.iter() {
            let syms: Vec<Sym> = a
                .split_whitespace()
                .map(|s| {
                    let c = s.chars().next().unwrap();
                    if c.is_ascii_lowercase() {
                        Sym::T(term_of(c, &mut used))
                    } else {
                        Sym::N(nt_index(s))
                    }
                })
                .collect();
            aspecs.push(AltSpec::of(syms));
        }
        rules.push(RuleSpec { name: name.to_string(), annotation: None, meta: Meta::default(), alts: aspecs });
    }
    let terms: Vec<TermSpec> = used.iter().map(|i| pool[*i].clone()).collect();
    let mut g = GrammarSpec { terms, rules, layout: None };
    // optional perturbation: one extra random alternative taken from the raw rules
    if raw.mixer % 2 == 1 {
        if let Some((alts, _)) = raw.rules.first() {
            if let Some(a) = alts.first() {
                let nn = g.rules.len();
                let nt = g.terms.len();
                let target = pick(raw.perm[5], nn);
                let syms: Vec<Sym> = a
                    .syms
                    .iter()
                    .map(|(is_nt, v)| if *is_nt { Sym::N(pick(*v, nn)) } else { Sym::T(pick(*v, nt)) })
                    .collect();
                if syms != vec![Sym::N(target)]
                    && !g.rules[target].alts.iter().any(|x| x.syms.iter().map(|u| u.sym).collect::<Vec<_>>() == syms)
                {
                    g.rules[target].alts.push(AltSpec::of(syms));
                }
            }
        }
    }
    g
}

fn build_bnf(raw: RawG, p: &BnfParams) -> GrammarSpec {
    let pool = match p.pool {
        Pool::Plain => tplain_pool(),
        Pool::Unicode(long) => {
            // put unicode terminals first so that small masks select them
            let mut u = tunicode_pool(long);
            u.extend(tplain_pool());
            u
        }
        Pool::Overlap => toverlap_pool(),
    };
    if p.templates && (raw.mixer >= 7 || p.templates_only) {
        return build_template(&raw, &pool, p.template_set);
    }
    let terms = select_terms(&pool, raw.term_mask, p.max_terms, 2);
    let nt = terms.len();
    let nn = raw.rules.len();
    let guarded = raw.mixer >= 3; // mixers 3..6 guarded, 0..2 free-form
    let mut rules = vec![];
    for (i, (alts, base)) in raw.rules.iter().enumerate() {
        let mut out: Vec<Vec<Sym>> = vec![];
        for (k, a) in alts.iter().enumerate() {
            let mut syms: Vec<Sym> = a
                .syms
                .iter()
                .map(|(is_nt, v)| if *is_nt { Sym::N(pick(*v, nn)) } else { Sym::T(pick(*v, nt)) })
                .collect();
            if guarded && a.guard {
                // start with a terminal that is distinct among the alternatives of this rule
                let g = Sym::T((k + i) % nt);
                if syms.first() != Some(&g) {
                    syms.insert(0, g);
                }
                if syms.len() > p.max_syms + 1 {
                    syms.truncate(p.max_syms + 1);
                }
            }
            out.push(syms);
        }
        // base alternative: only terminals and later rules => every rule is productive
        let later = nn - i - 1;
        let b: Vec<Sym> = base
            .iter()
            .map(|v| {
                let k = pick(*v, nt + later);
                if k < nt {
                    Sym::T(k)
                } else {
                    Sym::N(i + 1 + (k - nt))
                }
            })
            .collect();
        out.push(b);
        // drop `A: A` (rejected by the compiler as infinite recursion) and duplicates
        out.retain(|a| a != &vec![Sym::N(i)]);
        if !p.ambiguous_ok || raw.mixer % 2 == 0 {
            let mut seen: Vec<Vec<Sym>> = vec![];
            out.retain(|a| {
                if seen.contains(a) {
                    false
                } else {
                    seen.push(a.clone());
                    true
                }
            });
        }
        if out.is_empty() {
            out.push(vec![Sym::T(0)]);
        }
        rules.push(RuleSpec {
            name: NT_NAMES[i].to_string(),
            annotation: None,
            meta: Meta::default(),
            alts: out.into_iter().map(AltSpec::of).collect(),
        });
    }
    GrammarSpec { terms, rules, layout: None }
}

pub fn g_bnf(p: BnfParams) -> impl Strategy<Value = GrammarSpec> {
    raw_g(&p).prop_map(move |raw| build_bnf(raw, &p))
}

// ---------------------------------------------------------------------------------------
// inputs: token strings derived from tapes

/// Random derivation from the start symbol; tape values choose alternatives; after the depth
/// budget the shortest alternative is taken (termination).
pub fn derive_tokens(g: &Bnf, tape: &mut Cursor, max_depth: usize, max_len: usize) -> Vec<usize> {
    let min = g.min_len();
    let mut out = vec![];
    // explicit stack of (symbol, depth)
    let mut stack: Vec<(Sym, usize)> = vec![(Sym::N(g.start), 0)];
    let mut expansions = 0usize;
    while let Some((s, d)) = stack.pop() {
        expansions += 1;
        if expansions > 20_000 {
            // unproductive nonterminal (cannot happen for generated grammars; safety net)
            break;
        }
        match s {
            Sym::T(t) => out.push(t),
            Sym::N(n) => {
                let alts = &g.nts[n].alts;
                let ai = if d >= max_depth || out.len() + stack.len() >= max_len || tape.exhausted() {
                    min[n].1
                } else {
                    tape.pick(alts.len())
                };
                for sym in alts[ai].iter().rev() {
                    stack.push((*sym, d + 1));
                }
            }
        }
    }
    out
}

pub fn mutate_tokens(toks: &mut Vec<usize>, nterms: usize, tape: &mut Cursor) {
    let op = tape.pick(6);
    match op {
        0 if !toks.is_empty() => {
            let i = tape.pick(toks.len());
            toks.remove(i);
        }
        1 if !toks.is_empty() => {
            let i = tape.pick(toks.len());
            let t = toks[i];
            toks.insert(i, t);
        }
        2 if toks.len() >= 2 => {
            let i = tape.pick(toks.len() - 1);
            toks.swap(i, i + 1);
        }
        3 if !toks.is_empty() => {
            let i = tape.pick(toks.len());
            toks[i] = tape.pick(nterms);
        }
        4 => {
            let i = tape.pick(toks.len() + 1);
            toks.insert(i, tape.pick(nterms));
        }
        _ => {
            if !toks.is_empty() {
                let i = tape.pick(toks.len());
                toks.truncate(i);
            } else {
                toks.push(tape.pick(nterms));
            }
        }
    }
}

/// Token string for an input tape. kinds: 0-3 sentence, 4-5 mutated sentence, 6 random
/// tokens, 7 truncated sentence, 8 sentence with appended tokens, 9 doubly mutated.
/// Sentence (kind 0) with its own depth budget: grammars whose interesting choices sit several
/// levels below a list of statements need more than the default 6.
pub fn sentence_deep(g: &Bnf, it: &InputTape, max_depth: usize, max_len: usize) -> Vec<usize> {
    let mut c = Cursor::new(&it.tape);
    derive_tokens(g, &mut c, max_depth, max_len)
}

pub fn tokens_for(g: &Bnf, it: &InputTape, max_len: usize) -> Vec<usize> {
    let mut c = Cursor::new(&it.tape);
    let nterms = g.nterms.max(1);
    match it.kind {
        0..=3 => derive_tokens(g, &mut c, 6, max_len),
        4 | 5 => {
            let mut t = derive_tokens(g, &mut c, 5, max_len);
            mutate_tokens(&mut t, nterms, &mut c);
            t
        }
        6 => {
            let n = c.pick(max_len + 1);
            (0..n).map(|_| c.pick(nterms)).collect()
        }
        7 => {
            let mut t = derive_tokens(g, &mut c, 6, max_len);
            if !t.is_empty() {
                let i = c.pick(t.len());
                t.truncate(i);
            }
            t
        }
        8 => {
            let mut t = derive_tokens(g, &mut c, 5, max_len);
            let n = 1 + c.pick(2);
            for _ in 0..n {
                t.push(c.pick(nterms));
            }
            t
        }
        _ => {
            let mut t = derive_tokens(g, &mut c, 5, max_len);
            mutate_tokens(&mut t, nterms, &mut c);
            mutate_tokens(&mut t, nterms, &mut c);
            t
        }
    }
}

#[derive(Clone, Copy, Debug, PartialEq, Eq)]
pub enum LayoutStyle {
    /// single spaces only where required
    Minimal,
    /// ASCII whitespace incl. newlines
    Ascii,
    /// ASCII + multi-byte whitespace (NBSP, EM SPACE) + CRLF
    Unicode,
    /// runs that end in a line break after blanks, blank-only lines, CRLF after blanks
    Lines,
}

const WS_ASCII: &[&str] = &["", " ", "", "  ", "\n", "\t", " \n ", "\n\n", ""];
const WS_UNI: &[&str] = &["", " ", "\u{a0}", "\r\n", "\n", "\u{2003} ", "", " \n\u{a0}", "\t"];
const WS_LINES: &[&str] = &["", " ", " \n", "\t\n", "  \r\n", "\n", " \n\n", "\n \n", " \n  ", "\r\n", "\u{a0}\n", " \t \n"];

#[derive(Clone, Debug)]
pub struct Rendered {
    pub text: String,
    /// byte span of each token
    pub spans: Vec<(usize, usize)>,
    /// layout string before each token, and the trailing one
    pub layouts: Vec<String>,
}

/// Render a token-kind string as text. Token texts are chosen among the terminal's samples;
/// two adjacent regex tokens are always separated by at least one whitespace.
pub fn render_tokens(
    terms: &[TermSpec],
    toks: &[usize],
    style: LayoutStyle,
    tape: &mut Cursor,
) -> Rendered {
    render_tokens_sep(terms, toks, style, tape, true)
}

pub fn render_tokens_sep(
    terms: &[TermSpec],
    toks: &[usize],
    style: LayoutStyle,
    tape: &mut Cursor,
    force_sep: bool,
) -> Rendered {
    let mut text = String::new();
    let mut spans = vec![];
    let mut layouts = vec![];
    let mut prev_regex = false;
    for (i, t) in toks.iter().enumerate() {
        let term = &terms[*t];
        let mut ws: String = match style {
            LayoutStyle::Minimal => String::new(),
            LayoutStyle::Ascii => WS_ASCII[tape.pick(WS_ASCII.len())].to_string(),
            LayoutStyle::Unicode => WS_UNI[tape.pick(WS_UNI.len())].to_string(),
            LayoutStyle::Lines => WS_LINES[tape.pick(WS_LINES.len())].to_string(),
        };
        if force_sep && ws.is_empty() && i > 0 && prev_regex && term.is_regex() {
            ws.push(' ');
        }
        text.push_str(&ws);
        layouts.push(ws);
        let sample = &term.samples[tape.pick(term.samples.len())];
        let s = text.len();
        text.push_str(sample);
        spans.push((s, text.len()));
        prev_regex = term.is_regex();
    }
    let trail: String = match style {
        LayoutStyle::Minimal => String::new(),
        LayoutStyle::Ascii => WS_ASCII[tape.pick(WS_ASCII.len())].to_string(),
        LayoutStyle::Unicode => WS_UNI[tape.pick(WS_UNI.len())].to_string(),
        LayoutStyle::Lines => WS_LINES[tape.pick(WS_LINES.len())].to_string(),
    };
    text.push_str(&trail);
    layouts.push(trail);
    Rendered { text, spans, layouts }
}

// ---------------------------------------------------------------------------------------
// G-ops: grammars with conflicts and disambiguation meta-data

pub const PRIOS: [u32; 5] = [5, 8, 10, 12, 15];
pub const ASSOCS: [AssocKw; 4] = [AssocKw::Left, AssocKw::Reduce, AssocKw::Right, AssocKw::Shift];

/// Sprinkle random meta-data over a spec (pure function of the tape).
/// Associativity is given either on the rule or on its productions, never both with different
/// data (that combination is C09's subject and is counted as excluded by construction).
pub fn sprinkle_meta(spec: &mut GrammarSpec, tape: &mut Cursor, term_assoc: bool) {
    for r in spec.rules.iter_mut() {
        let rule_level = tape.pick(8) == 0;
        if rule_level {
            match tape.pick(3) {
                0 => r.meta.prio = Some(PRIOS[tape.pick(PRIOS.len())]),
                1 => r.meta.assoc = Some(ASSOCS[tape.pick(ASSOCS.len())]),
                _ => r.meta.nops = true,
            }
        }
        let rule_has_assoc = r.meta.assoc.is_some();
        for a in r.alts.iter_mut() {
            if tape.pick(3) == 0 {
                a.meta.prio = Some(PRIOS[tape.pick(PRIOS.len())]);
            }
            if !rule_has_assoc && tape.pick(3) == 0 {
                a.meta.assoc = Some(ASSOCS[tape.pick(ASSOCS.len())]);
            }
            if tape.pick(10) == 0 {
                a.meta.nops = true;
            }
            if tape.pick(10) == 0 {
                a.meta.nopse = true;
            }
        }
    }
    if term_assoc {
        for t in spec.terms.iter_mut() {
            if tape.pick(5) == 0 {
                t.assoc = ASSOCS[tape.pick(ASSOCS.len())];
            }
        }
    }
}

/// Production priorities that thin out the cells of a right-nulled (GLR) table: EMPTY
/// alternatives get a low priority (so the reduction of a right-nullable production survives
/// alone against the empty reductions of its tail), other alternatives occasionally a high one.
pub fn prioritise_against_empty(spec: &mut GrammarSpec, tape: &mut Cursor, all_empty_low: bool) {
    for r in spec.rules.iter_mut() {
        for a in r.alts.iter_mut() {
            if a.syms.is_empty() {
                if all_empty_low || tape.pick(4) != 0 {
                    a.meta.prio = Some(5);
                }
            } else if !all_empty_low && tape.pick(6) == 0 {
                a.meta.prio = Some(15);
            }
        }
    }
}

/// Effective (inherited) production data by the documented rule: the production's own datum
/// wins, otherwise the rule's, otherwise the default.
#[derive(Clone, Copy, Debug, PartialEq, Eq)]
pub struct EffMeta {
    pub prio: u32,
    pub assoc: i8,
    pub nops: bool,
    pub nopse: bool,
}

pub fn eff_meta(r: &RuleSpec, a: &AltSpec) -> EffMeta {
    EffMeta {
        prio: a.meta.prio.or(r.meta.prio).unwrap_or(10),
        assoc: a.meta.assoc.or(r.meta.assoc).map(|k| k.datum()).unwrap_or(0),
        nops: a.meta.nops || r.meta.nops,
        nopse: a.meta.nopse || r.meta.nopse,
    }
}

#[derive(Clone, Debug, Serialize, Deserialize, PartialEq)]
pub struct OpLevel {
    pub ops: Vec<usize>, // indices into the operator pool
    pub right: bool,
    pub prio: u32,
}

pub const OP_POOL: [(&str, &str); 6] =
    [("Plus", "+"), ("Minus", "-"), ("Star", "*"), ("Eq", "="), ("Lt", "<"), ("Bang", "!")];

/// Expression grammar `E: E op E {prio, assoc} ... | '(' E ')' | Num` from a precedence table.
/// `on_terms`: associativity is given on the operator terminals instead of the productions.
/// `kw_alt`: use reduce/shift keywords instead of left/right.
pub fn expr_spec(levels: &[OpLevel], on_terms: bool, kw_alt: bool) -> GrammarSpec {
    let mut terms: Vec<TermSpec> = vec![];
    let mut alts: Vec<AltSpec> = vec![];
    for l in levels {
        for o in &l.ops {
            let (n, s) = OP_POOL[*o];
            let kw = match (l.right, kw_alt) {
                (false, false) => AssocKw::Left,
                (false, true) => AssocKw::Reduce,
                (true, false) => AssocKw::Right,
                (true, true) => AssocKw::Shift,
            };
            let mut t = TermSpec::str(n, s);
            if on_terms {
                t.assoc = kw;
            }
            terms.push(t);
            let ti = terms.len() - 1;
            let mut a = AltSpec::of(vec![Sym::N(0), Sym::T(ti), Sym::N(0)]);
            a.meta.prio = Some(l.prio);
            if !on_terms {
                a.meta.assoc = Some(kw);
            }
            alts.push(a);
        }
    }
    terms.push(TermSpec::str("LPar", "("));
    let lp = terms.len() - 1;
    terms.push(TermSpec::str("RPar", ")"));
    let rp = terms.len() - 1;
    terms.push(TermSpec::regex("Num", "\\d+", &["1", "23", "4"]));
    let num = terms.len() - 1;
    alts.push(AltSpec::of(vec![Sym::T(lp), Sym::N(0), Sym::T(rp)]));
    alts.push(AltSpec::of(vec![Sym::T(num)]));
    GrammarSpec {
        terms,
        rules: vec![RuleSpec { name: "E".into(), annotation: None, meta: Meta::default(), alts }],
        layout: None,
    }
}

pub fn op_levels() -> impl Strategy<Value = Vec<OpLevel>> {
    // a random partition of a random subset of the operator pool into 1..4 levels with
    // distinct priorities
    (
        proptest::collection::vec((any::<bool>(), 0u8..4), OP_POOL.len()),
        proptest::collection::vec(any::<bool>(), 4),
        proptest::sample::subsequence(vec![3u32, 6, 9, 10, 11, 14, 20], 4),
    )
        .prop_map(|(assign, rights, prios)| {
            let mut levels: Vec<OpLevel> =
                (0..4).map(|i| OpLevel { ops: vec![], right: rights[i], prio: prios[i] }).collect();
            for (o, (used, lvl)) in assign.iter().enumerate() {
                if *used {
                    levels[*lvl as usize].ops.push(o);
                }
            }
            levels.retain(|l| !l.ops.is_empty());
            if levels.is_empty() {
                levels.push(OpLevel { ops: vec![0], right: false, prio: 10 });
            }
            levels
        })
}

// ---------------------------------------------------------------------------------------
// layout rendering for Layout-rule grammars (C14)

const L_WS: &[&str] = &["", " ", "\n", "\t ", "  \n", ""];
const L_LINE: &[&str] = &["", " ", "// c\n", " //\n", "\n// a b\n  ", "//x\n//y\n", ""];
const L_BLOCK: &[&str] = &[
    "",
    " ",
    "/* x */",
    " /* a b */ ",
    "/* a /* nested */ b */",
    "// c\n",
    "/**/",
    "\n/* 1 */ /* 2 */\n",
    "/* * x / y */",
    "",
];

pub fn layout_pool(kind: Option<LayoutKind>) -> &'static [&'static str] {
    match kind {
        None => WS_UNI,
        Some(LayoutKind::Ws) => L_WS,
        Some(LayoutKind::WsLine) => L_LINE,
        Some(LayoutKind::WsLineBlock) | Some(LayoutKind::WsLineBlockPlus) => L_BLOCK,
        Some(LayoutKind::WsPair) => L_PAIR,
    }
}

const L_PAIR: &[&str] = &["", " ", "~^", " ~^ ", "~^~^", "\n~^\n", "", "~^ ~^", "\t"];

/// Render tokens with layout runs drawn from the pool of the given layout mode.
/// `minimal` uses the empty layout wherever the terminals permit.
pub fn render_with_layout(
    terms: &[TermSpec],
    toks: &[usize],
    kind: Option<LayoutKind>,
    minimal: bool,
    tape: &mut Cursor,
) -> Rendered {
    let pool = layout_pool(kind);
    let mut text = String::new();
    let mut spans = vec![];
    let mut layouts = vec![];
    let mut prev_regex = false;
    let mut prev_text = String::new();
    for (i, t) in toks.iter().enumerate() {
        let term = &terms[*t];
        let mut ws: String = if minimal { String::new() } else { pool[tape.pick(pool.len())].to_string() };
        let sample = &term.samples[tape.pick(term.samples.len())];
        // two adjacent regex tokens need a separator; so do tokens that would otherwise form a
        // comment opener with their neighbour (cannot happen with the plain pool, kept for safety)
        let glue_bad = i > 0 && ((prev_regex && term.is_regex()) || (prev_text.ends_with('/') || prev_text.ends_with('*')) && (sample.starts_with('/') || sample.starts_with('*')));
        if ws.is_empty() && glue_bad {
            ws.push(' ');
        }
        text.push_str(&ws);
        layouts.push(ws);
        let s = text.len();
        text.push_str(sample);
        spans.push((s, text.len()));
        prev_regex = term.is_regex();
        prev_text = sample.clone();
    }
    let trail: String = if minimal { String::new() } else { pool[tape.pick(pool.len())].to_string() };
    text.push_str(&trail);
    layouts.push(trail);
    Rendered { text, spans, layouts }
}

// ---------------------------------------------------------------------------------------
// G-lang: every construct of the grammar language (valid by construction)

#[derive(Clone, Debug)]
pub struct LangParams {
    pub max_nts: usize,
    pub max_alts: usize,
    pub max_syms: usize,
    pub sugar: bool,
    pub meta: bool,
    pub assigns: bool,
    pub inline: bool,
    /// rule-level and production-level associativity may be combined (C09 only)
    pub mixed_assoc: bool,
    pub max_terms: usize,
}

impl LangParams {
    pub fn full() -> Self {
        LangParams { max_nts: 5, max_alts: 3, max_syms: 4, sugar: true, meta: true, assigns: true, inline: true, mixed_assoc: true, max_terms: 7 }
    }
}

#[derive(Clone, Debug)]
struct RawSym {
    is_nt: bool,
    idx: u16,
    inline: u8,
    rep: u8,
    sep: u16,
    assign: u8,
}

#[derive(Clone, Debug)]
struct RawMeta {
    prio: u8,
    assoc: u8,
    flags: u8,
    kind: u8,
    user: u8,
}

fn raw_sym() -> impl Strategy<Value = RawSym> {
    (prop::bool::weighted(0.4), any::<u16>(), any::<u8>(), any::<u8>(), any::<u16>(), any::<u8>())
        .prop_map(|(is_nt, idx, inline, rep, sep, assign)| RawSym { is_nt, idx, inline, rep, sep, assign })
}

fn raw_meta() -> impl Strategy<Value = RawMeta> {
    (any::<u8>(), any::<u8>(), any::<u8>(), any::<u8>(), any::<u8>())
        .prop_map(|(prio, assoc, flags, kind, user)| RawMeta { prio, assoc, flags, kind, user })
}

const KINDS: [&str; 6] = ["Add", "Sub", "K1", "Neg", "Paren", "Item"];
const ASSIGN_NAMES: [&str; 6] = ["x", "y", "val", "item", "lhs", "rest"];
const USER_KEYS: [&str; 3] = ["weight", "tag", "flag"];

fn build_meta(m: &RawMeta, on: bool, allow_kind: bool, allow_assoc: bool) -> Meta {
    let mut out = Meta::default();
    if !on {
        return out;
    }
    if m.prio % 4 == 3 {
        out.prio = Some(PRIOS[(m.prio as usize / 4) % PRIOS.len()]);
    }
    if allow_assoc && m.assoc % 4 == 3 {
        out.assoc = Some(ASSOCS[(m.assoc as usize / 4) % ASSOCS.len()]);
    }
    if m.flags % 8 == 6 {
        out.nops = true;
    }
    if m.flags % 8 == 7 {
        out.nopse = true;
    }
    if allow_kind && m.kind % 5 == 4 {
        out.kind = Some(KINDS[(m.kind as usize / 5) % KINDS.len()].to_string());
    }
    if m.user % 6 == 5 {
        let k = USER_KEYS[(m.user as usize / 6) % USER_KEYS.len()].to_string();
        let v = match (m.user / 18) % 4 {
            0 => UserVal::Int(m.user as u32),
            1 => UserVal::Bool(m.user % 2 == 0),
            2 => UserVal::Str("s t".into()),
            _ => UserVal::Float("1.5".into()),
        };
        out.user.push((k, v));
    }
    out
}

pub fn lang_terms() -> Vec<TermSpec> {
    let mut t = vec![
        TermSpec::str("Ta", "a"),
        TermSpec::str("Tb", "b"),
        TermSpec::str("Comma", ","),
        TermSpec::str("Plus", "+"),
        TermSpec::str("LPar", "("),
        TermSpec::str("RPar", ")"),
        TermSpec::str("Semi", ";"),
        TermSpec::str("KwIf", "if"),
    ];
    t.push(TermSpec::regex("Num", "\\d+", &["1", "42", "7"]));
    t.push(TermSpec::regex("Id", "[x-z]+", &["x", "yz", "zx"]));
    t
}

pub fn g_lang(p: LangParams) -> impl Strategy<Value = GrammarSpec> {
    let max_alts = p.max_alts;
    let max_syms = p.max_syms;
    (
        any::<u32>(),
        proptest::collection::vec(
            (
                proptest::collection::vec((proptest::collection::vec(raw_sym(), 0..=max_syms), raw_meta()), 1..=max_alts),
                proptest::collection::vec(any::<u16>(), 0..=2),
                raw_meta(),
            ),
            1..=p.max_nts,
        ),
        proptest::collection::vec((any::<u8>(), any::<u8>()), 10),
    )
        .prop_map(move |(mask, rules, tmeta)| {
            let pool = lang_terms();
            let mut terms = select_terms(&pool, mask, p.max_terms, 3.min(p.max_terms));
            for (i, t) in terms.iter_mut().enumerate() {
                if p.meta {
                    let (a, b) = tmeta[i % tmeta.len()];
                    if a % 6 == 5 {
                        t.prio = Some(PRIOS[(a as usize / 6) % PRIOS.len()]);
                    }
                    if b % 6 == 5 {
                        t.assoc = ASSOCS[(b as usize / 6) % ASSOCS.len()];
                    }
                }
            }
            let nt = terms.len();
            let nn = rules.len();
            let str_terms: Vec<usize> = (0..nt).filter(|i| !terms[*i].is_regex()).collect();
            let mut out_rules = vec![];
            for (i, (alts, base, rmeta)) in rules.iter().enumerate() {
                let rule_meta = build_meta(rmeta, p.meta && rmeta.kind % 3 == 2, false, true);
                let mut out_alts: Vec<AltSpec> = vec![];
                for (syms, ameta) in alts {
                    let mut uses = vec![];
                    let mut used_names: Vec<String> = vec![];
                    for s in syms {
                        let sym = if s.is_nt { Sym::N(pick(s.idx, nn)) } else { Sym::T(pick(s.idx, nt)) };
                        let mut u = SymUse::plain(sym);
                        if let Sym::T(t) = sym {
                            if p.inline && !terms[t].is_regex() && s.inline % 3 == 2 {
                                u.inline = true;
                                u.dquote = s.inline % 2 == 0;
                            }
                        }
                        if p.sugar && s.rep % 4 == 3 {
                            let op = match (s.rep / 4) % 3 {
                                0 => RepOp::Opt,
                                1 => RepOp::Star,
                                _ => RepOp::Plus,
                            };
                            let sep = if op != RepOp::Opt && (s.rep / 12) % 2 == 0 && !str_terms.is_empty() {
                                Some(str_terms[pick(s.sep, str_terms.len())])
                            } else {
                                None
                            };
                            u.rep = Some((op, sep));
                        }
                        if p.assigns && s.assign % 4 == 3 {
                            let base = ASSIGN_NAMES[(s.assign as usize / 4) % ASSIGN_NAMES.len()];
                            let mut name = base.to_string();
                            let mut k = 2;
                            while used_names.contains(&name) {
                                name = format!("{base}{k}");
                                k += 1;
                            }
                            used_names.push(name.clone());
                            u.assign = Some((name, (s.assign / 24) % 3 == 0));
                        }
                        uses.push(u);
                    }
                    let allow_assoc = p.mixed_assoc || rule_meta.assoc.is_none();
                    // redundant explicit EMPTY references (derived from spare bits of the raw
                    // meta-data so that the strategy is unchanged)
                    let mut empties: Vec<u8> = vec![];
                    if p.sugar && (ameta.flags / 8) % 5 == 4 {
                        empties.push(((ameta.kind as usize / 30) % (uses.len() + 1)) as u8);
                        if (ameta.prio / 16) % 2 == 1 {
                            empties.push(((ameta.assoc as usize / 16) % (uses.len() + 1)) as u8);
                        }
                    }
                    out_alts.push(AltSpec { syms: uses, meta: build_meta(ameta, p.meta, true, allow_assoc), empties });
                }
                // productive base alternative (terminals and later rules only)
                let later = nn - i - 1;
                let b: Vec<SymUse> = base
                    .iter()
                    .map(|v| {
                        let k = pick(*v, nt + later);
                        SymUse::plain(if k < nt { Sym::T(k) } else { Sym::N(i + 1 + (k - nt)) })
                    })
                    .collect();
                out_alts.push(AltSpec { syms: b, meta: Meta::default(), empties: vec![] });
                // `A: A` is rejected by the compiler
                out_alts.retain(|a| !(a.syms.len() == 1 && a.syms[0].sym == Sym::N(i) && a.syms[0].rep.is_none()));
                // production kinds must be unique within a rule (they name enum variants)
                let mut seen_kinds: Vec<String> = vec![];
                for a in out_alts.iter_mut() {
                    if let Some(k) = &a.meta.kind {
                        if seen_kinds.contains(k) {
                            a.meta.kind = None;
                        } else {
                            seen_kinds.push(k.clone());
                        }
                    }
                }
                if out_alts.is_empty() {
                    out_alts.push(AltSpec::of(vec![Sym::T(0)]));
                }
                out_rules.push(RuleSpec {
                    name: NT_NAMES[i].to_string(),
                    annotation: None,
                    meta: rule_meta,
                    alts: out_alts,
                });
            }
            let mut g = GrammarSpec { terms, rules: out_rules, layout: None };
            // occasionally a user rule is named like the helper rule of a repetition used in the
            // grammar (`B1` next to `B+`, `A0` / `A1` next to `A*`, `AOpt` next to `A?`): the
            // compiler must refuse such a grammar wherever the rule stands (spare bits of the
            // terminal meta-data, so that the strategy is unchanged)
            let (r0, r1) = tmeta[tmeta.len() - 1];
            if p.sugar && g.rules.len() > 1 && r0 % 5 == 4 {
                let helpers = g.helper_names();
                if !helpers.is_empty() {
                    let i = 1 + (r1 as usize % (g.rules.len() - 1));
                    let h = helpers[(r1 as usize / 8) % helpers.len()].clone();
                    if !g.rules.iter().any(|r| r.name == h) {
                        g.rules[i].name = h;
                    }
                }
            }
            g
        })
}

// ---------------------------------------------------------------------------------------
// G-ast: (mostly) conflict-free grammars rich in AST type shapes

pub fn ast_terms() -> Vec<TermSpec> {
    let mut t = vec![];
    for (n, s) in [
        ("KwAlpha", "alpha"), ("KwBeta", "beta"), ("KwGamma", "gamma"), ("KwDelta", "delta"),
        ("KwEta", "eta"), ("KwTheta", "theta"), ("KwIota", "iota"), ("KwKappa", "kappa"),
        ("Comma", ","), ("Semi", ";"), ("LPar", "("), ("RPar", ")"), ("Bang", "!"), ("Colon", ":"),
        ("Amp", "&"), ("Unused", "%"),
    ] {
        t.push(TermSpec::str(n, s));
    }
    t.push(TermSpec::regex("Num", "\\d+", &["1", "42", "007"]));
    t.push(TermSpec::regex("Id", "[x-z]+", &["x", "yz", "zzy"]));
    t
}

const T_KW0: usize = 0; // 8 keywords 0..8
const T_COMMA: usize = 8;
const T_SEMI: usize = 9;
const T_LPAR: usize = 10;
const T_RPAR: usize = 11;
const T_BANG: usize = 12;
const T_COLON: usize = 13;
const T_AMP: usize = 14;
const T_NUM: usize = 16;
const T_ID: usize = 17;

/// names chosen to collide after suffixing / case conversion
const AST_NAMES: [&str; 10] = ["B", "B1", "C", "C1", "Item", "Items", "B11", "Node", "Leaf", "Opt"];
const FIELD_NAMES: [&str; 6] = ["left", "right", "name", "value", "item", "b1"];
const AST_KINDS: [&str; 6] = ["Add", "Sub", "First", "Second", "Third", "Neg"];

fn tsym(t: usize) -> SymUse {
    SymUse::plain(Sym::T(t))
}
fn tinline(t: usize, dq: bool) -> SymUse {
    SymUse { inline: true, dquote: dq, ..SymUse::plain(Sym::T(t)) }
}
fn named(mut u: SymUse, name: &str, is_bool: bool) -> SymUse {
    u.assign = Some((name.to_string(), is_bool));
    u
}

/// Build a G-ast grammar from a tape (pure function).
pub fn build_ast(tape: &[u16]) -> GrammarSpec {
    let mut c = Cursor::new(tape);
    let terms = ast_terms();
    let nrules = 2 + c.pick(6); // body rules
    // rule indexes: 0 = S, 1 = Stmt, 2.. = body rules
    let first_body = 2;
    let total = first_body + nrules;
    let mut names: Vec<String> = vec!["S".into(), "Stmt".into()];
    let mut avail: Vec<&str> = AST_NAMES.to_vec();
    for _ in 0..nrules {
        let i = c.pick(avail.len());
        names.push(avail.remove(i).to_string());
    }
    let mut rules: Vec<RuleSpec> = vec![];
    // a content item for rule i: content terminal or a later rule, occasionally an earlier rule
    // wrapped in parentheses (mutual recursion => Box)
    let item = |c: &mut Cursor, i: usize| -> Vec<SymUse> {
        let later = total - i - 1;
        let k = c.pick(3 + later);
        match k {
            0 => vec![tsym(T_NUM)],
            1 => vec![tsym(T_ID)],
            2 => {
                if i > first_body && c.pick(2) == 0 {
                    // strictly earlier rule (a self reference here could leave the rule without
                    // a productive alternative)
                    let j = first_body + c.pick(i - first_body);
                    vec![tinline(T_LPAR, false), SymUse::plain(Sym::N(j)), tinline(T_RPAR, true)]
                } else {
                    vec![tsym(T_NUM)]
                }
            }
            _ => vec![SymUse::plain(Sym::N(i + 1 + (k - 3)))],
        }
    };
    // S and Stmt are filled in at the end
    rules.push(RuleSpec { name: "S".into(), annotation: None, meta: Meta::default(), alts: vec![] });
    rules.push(RuleSpec { name: "Stmt".into(), annotation: None, meta: Meta::default(), alts: vec![] });
    for i in first_body..total {
        let mut kind = c.pick(12);
        let mut annotation = None;
        // kind 11 (enum referring twice to each of two later rules) needs two later rules
        let later_rules: Vec<usize> = (i + 1..total).collect();
        if kind == 11 && later_rules.len() < 2 {
            kind = 9;
        }
        let kw = |k: usize| tinline(T_KW0 + (k % 8), k % 3 == 0);
        let mut alts: Vec<AltSpec> = vec![];
        let mk = |syms: Vec<SymUse>| AltSpec { syms, meta: Meta::default(), empties: vec![] };
        match kind {
            0 => {
                // enum of terminals, maybe with kinds
                let with_kinds = c.pick(2) == 0;
                for (k, t) in [T_NUM, T_ID].iter().enumerate() {
                    let mut a = mk(vec![tsym(*t)]);
                    if with_kinds {
                        a.meta.kind = Some(AST_KINDS[k].to_string());
                    }
                    alts.push(a);
                }
                if c.pick(3) == 0 {
                    alts.push(mk(vec![tinline(T_AMP, false)]));
                }
            }
            1 => {
                // struct with named / unnamed fields
                let mut syms = vec![kw(i)];
                let n = 1 + c.pick(3);
                let mut used: Vec<String> = vec![];
                for _ in 0..n {
                    let mut it = item(&mut c, i);
                    let idx = it.len() / 2;
                    if c.pick(2) == 0 {
                        let mut nm = FIELD_NAMES[c.pick(FIELD_NAMES.len())].to_string();
                        while used.contains(&nm) {
                            nm.push('2');
                        }
                        used.push(nm.clone());
                        it[idx] = named(it[idx].clone(), &nm, false);
                    }
                    syms.extend(it);
                    syms.push(tinline(T_COLON, false));
                }
                alts.push(mk(syms));
            }
            2 | 3 => {
                // @vec in both recursion directions, optionally with separator / EMPTY base
                annotation = Some("vec".to_string());
                let it = item(&mut c, i);
                let sep = c.pick(3) == 0;
                let empty_base = c.pick(3) == 0 && !sep;
                let mut rec: Vec<SymUse> = vec![];
                if kind == 2 {
                    rec.push(SymUse::plain(Sym::N(i)));
                    if sep {
                        rec.push(tsym(T_COMMA));
                    }
                    rec.extend(it.clone());
                } else {
                    rec.extend(it.clone());
                    if sep {
                        rec.push(tsym(T_COMMA));
                    }
                    rec.push(SymUse::plain(Sym::N(i)));
                }
                alts.push(mk(rec));
                // documented @vec patterns: `A: A B | B`, `A: B A | B` and `A: A B | B | EMPTY`
                alts.push(mk(it));
                if empty_base {
                    alts.push(mk(vec![]));
                }
            }
            4 => {
                // sugar
                let mut it = item(&mut c, i);
                let idx = it.len() / 2;
                if it.len() == 1 {
                    let op = match c.pick(3) {
                        0 => RepOp::Opt,
                        1 => RepOp::Star,
                        _ => RepOp::Plus,
                    };
                    let sep = if op != RepOp::Opt && c.pick(2) == 0 { Some(T_COMMA) } else { None };
                    it[idx].rep = Some((op, sep));
                    if c.pick(3) == 0 {
                        it[idx] = named(it[idx].clone(), "items", false);
                    }
                }
                let mut syms = vec![kw(i)];
                syms.extend(it);
                alts.push(mk(syms));
            }
            5 => {
                // optional struct
                let mut syms = vec![kw(i)];
                syms.extend(item(&mut c, i));
                syms.extend(item(&mut c, i));
                alts.push(mk(syms));
                alts.push(mk(vec![]));
            }
            6 => {
                // directly recursive type
                let it = item(&mut c, i);
                alts.push(mk(vec![tinline(T_LPAR, false), SymUse::plain(Sym::N(i)), tinline(T_RPAR, false)]));
                let mut second = vec![kw(i), SymUse::plain(Sym::N(i))];
                second.extend(it.clone());
                alts.push(mk(second));
                alts.push(mk(it));
            }
            7 => {
                // bool assignment
                let mut syms = vec![kw(i), named(tinline(T_BANG, false), "flag", true)];
                syms[1].rep = Some((RepOp::Opt, None));
                syms.extend(item(&mut c, i));
                alts.push(mk(syms));
            }
            8 => {
                // plain reference
                alts.push(mk(item(&mut c, i)));
            }
            9 => {
                // enum with struct variants, plain variant and kinds
                let mut a1 = vec![kw(i)];
                a1.extend(item(&mut c, i));
                let mut a2 = vec![kw(i + 1)];
                a2.extend(item(&mut c, i));
                a2.extend(item(&mut c, i));
                let mut x1 = mk(a1);
                let mut x2 = mk(a2);
                if c.pick(2) == 0 {
                    x1.meta.kind = Some(AST_KINDS[2].to_string());
                    x2.meta.kind = Some(AST_KINDS[3].to_string());
                }
                alts.push(x1);
                alts.push(x2);
                alts.push(mk(vec![kw(i + 2)]));
            }
            11 => {
                // choice-name de-duplication: two references to each of two rules, preferring a
                // pair whose names are related by a digit suffix (B / B1, C / C1, B1 / B11)
                let mut pair = (later_rules[0], later_rules[1]);
                'outer: for a in &later_rules {
                    for b in &later_rules {
                        if a != b && names[*b].starts_with(names[*a].as_str()) && names[*b].len() == names[*a].len() + 1 {
                            pair = (*a, *b);
                            break 'outer;
                        }
                    }
                }
                for (k, r) in [pair.0, pair.0, pair.1, pair.1].iter().enumerate() {
                    alts.push(mk(vec![kw(i + k), SymUse::plain(Sym::N(*r))]));
                }
            }
            _ => {
                // same symbol several times (field name de-duplication) + optional tail
                let mut syms = vec![kw(i), tsym(T_NUM), tsym(T_NUM), tsym(T_ID)];
                if c.pick(2) == 0 {
                    let mut o = tsym(T_ID);
                    o.rep = Some((RepOp::Opt, None));
                    syms.push(tinline(T_COLON, true));
                    syms.push(o);
                }
                alts.push(mk(syms));
            }
        }
        rules.push(RuleSpec { name: names[i].clone(), annotation, meta: Meta::default(), alts });
    }
    // production kinds name structs without the rule prefix: the same kind in two rules yields two
    // definitions of one type (recorded C11 finding), so kinds are made unique per rule except
    // in one grammar out of eight
    if c.pick(8) != 0 {
        for r in rules.iter_mut() {
            let rn = r.name.clone();
            for a in r.alts.iter_mut() {
                if let Some(k) = a.meta.kind.as_mut() {
                    k.push_str(&rn);
                }
            }
        }
    }
    // statements: one per body rule (some left unreachable)
    let mut stmt_alts = vec![];
    for i in first_body..total {
        if i > first_body && c.pick(6) == 0 {
            continue; // unreachable unless referenced by another rule
        }
        stmt_alts.push(AltSpec {
            syms: vec![tsym(T_KW0 + ((i + 3) % 8)), tsym(T_BANG), SymUse::plain(Sym::N(i)), tsym(T_SEMI)],
            meta: Meta::default(),
            empties: vec![],
        });
    }
    rules[1].alts = stmt_alts;
    let mut s_use = SymUse::plain(Sym::N(1));
    s_use.rep = Some((if c.pick(2) == 0 { RepOp::Plus } else { RepOp::Star }, None));
    rules[0].alts = vec![AltSpec { syms: vec![s_use], meta: Meta::default(), empties: vec![] }];
    // two terminals with the same string recogniser (an inline use resolves to one of them; which
    // one must not depend on anything but the grammar text)
    let mut terms = terms;
    if c.pick(4) == 0 {
        terms.push(TermSpec::str("Colon2", ":"));
        terms.push(TermSpec::str("ABang", "!"));
    }
    GrammarSpec { terms, rules, layout: None }
}

/// G-rec: small conflict-free grammars whose AST types are recursive through a vector, an
/// optional or a `?*+` edge that points back to its own rule or to an ancestor (the edge that
/// gets the `Box` depends on the order in which the type walk reaches the rules, so the rule
/// order and the order of the statements vary). Pure function of the tape.
pub fn build_rec(tape: &[u16]) -> GrammarSpec {
    let mut c = Cursor::new(tape);
    let terms = ast_terms();
    let mk = |syms: Vec<SymUse>| AltSpec { syms, meta: Meta::default(), empties: vec![] };
    let lp = || tinline(T_LPAR, false);
    let rp = || tinline(T_RPAR, true);
    // body rules as (name, annotation, alternatives); indexes are fixed up below: body rule k
    // is rule 2 + k
    let n = |k: usize| SymUse::plain(Sym::N(2 + k));
    let mut body: Vec<(String, Option<String>, Vec<AltSpec>)> = vec![];
    let shape = c.pick(13);
    match shape {
        7 | 9 | 10 => {
            // the same optional symbol before and after a mandatory one (the trailing one may
            // be right-nulled while the leading one is on the stack), sugar or explicit rule
            let mut o1 = SymUse::plain(Sym::T(T_NUM));
            o1.rep = Some((RepOp::Opt, None));
            let o2 = o1.clone();
            let mut alts = vec![mk(vec![o1, tsym(T_ID), o2])];
            // two trailing optionals; a priority above the default makes the right-nulled
            // reduction win against the EMPTY reductions of the optionals under GLR
            {
                let mut p1 = SymUse::plain(Sym::T(T_NUM));
                p1.rep = Some((RepOp::Opt, None));
                let mut p2 = SymUse::plain(Sym::T(T_ID));
                p2.rep = Some((RepOp::Opt, None));
                let mut a = mk(vec![tinline(T_KW0 + 2, false), tsym(T_NUM), p2, tinline(T_COLON, false), p1]);
                if c.pick(2) == 0 {
                    a.syms.remove(3);
                }
                a.meta.prio = Some(15);
                alts.push(a);
            }
            if c.pick(2) == 0 {
                let mut o3 = SymUse::plain(Sym::T(T_ID));
                o3.rep = Some((RepOp::Opt, None));
                let o4 = o3.clone();
                alts.push(mk(vec![tinline(T_KW0, false), o3, tsym(T_NUM), tinline(T_COLON, false), o4]));
            }
            body.push(("Node".to_string(), None, alts));
        }
        8 => {
            // the same optional non-terminal twice, last symbols nullable
            body.push(("Node".to_string(), None, vec![mk(vec![n(1), tsym(T_ID), n(1)]), mk(vec![tinline(T_KW0 + 1, false), n(1), n(1)])]));
            body.push(("Opt".to_string(), None, vec![mk(vec![tsym(T_NUM)]), mk(vec![])]));
        }
        0..=2 | 11 | 12 => {
            // element <-> hand written @vec rule
            let elem_first = c.pick(2) == 0;
            let (ei, li) = if elem_first { (0, 1) } else { (1, 0) };
            let right = c.pick(2) == 0;
            let sep = c.pick(3) == 0;
            let empty_base = !right && !sep && c.pick(3) == 0;
            let mut ealts = vec![mk(vec![tsym(T_NUM)])];
            if c.pick(2) == 0 {
                ealts.push(mk(vec![tsym(T_ID)]));
            }
            match c.pick(3) {
                0 => ealts.push(mk(vec![lp(), n(li), rp()])),
                1 => ealts.push(mk(vec![tinline(T_KW0, false), tsym(T_NUM), lp(), n(li), rp()])),
                _ => {
                    ealts.push(mk(vec![lp(), n(li), rp()]));
                    ealts.push(mk(vec![tinline(T_KW0 + 1, true), lp(), n(li), rp(), tsym(T_ID)]));
                }
            }
            let mut rec = vec![];
            if right {
                rec.push(n(ei));
                if sep {
                    rec.push(tsym(T_COMMA));
                }
                rec.push(n(li));
            } else {
                rec.push(n(li));
                if sep {
                    rec.push(tsym(T_COMMA));
                }
                rec.push(n(ei));
            }
            let mut lalts = vec![mk(rec), mk(vec![n(ei)])];
            if empty_base {
                lalts.push(mk(vec![]));
            }
            let e = ("Item".to_string(), None, ealts);
            let l = ("Items".to_string(), Some("vec".to_string()), lalts);
            if elem_first {
                body.push(e);
                body.push(l);
            } else {
                body.push(l);
                body.push(e);
            }
        }
        3 => {
            // `?*+` sugar that refers back to its own rule
            let (op, sep) = match c.pick(5) {
                0 => (RepOp::Plus, None),
                1 => (RepOp::Star, None),
                2 => (RepOp::Plus, Some(T_COMMA)),
                3 => (RepOp::Star, Some(T_COMMA)),
                _ => (RepOp::Opt, None),
            };
            let mut u = n(0);
            u.rep = Some((op, sep));
            if c.pick(3) == 0 {
                u = named(u, "items", false);
            }
            let mut alts = vec![mk(vec![tsym(T_NUM)])];
            if c.pick(2) == 0 {
                alts.push(mk(vec![tinline(T_KW0 + 2, false), tsym(T_ID), lp(), u, rp()]));
            } else {
                alts.push(mk(vec![lp(), u, rp()]));
            }
            body.push(("Node".to_string(), None, alts));
        }
        4 => {
            // struct with an optional reference to itself (sugar or an explicit optional rule)
            if c.pick(2) == 0 {
                let mut u = n(0);
                u.rep = Some((RepOp::Opt, None));
                body.push(("Node".to_string(), None, vec![mk(vec![tsym(T_ID), lp(), u, rp()])]));
            } else {
                let opt_first = c.pick(2) == 0;
                let (ni, oi) = if opt_first { (1, 0) } else { (0, 1) };
                let node = ("Node".to_string(), None, vec![mk(vec![tsym(T_ID), lp(), n(oi), rp()])]);
                let opt = ("Opt".to_string(), None, vec![mk(vec![n(ni)]), mk(vec![])]);
                if opt_first {
                    body.push(opt);
                    body.push(node);
                } else {
                    body.push(node);
                    body.push(opt);
                }
            }
        }
        5 => {
            // optional reference to an ancestor through an intermediate rule
            let mut u = n(0);
            u.rep = Some((RepOp::Opt, None));
            body.push(("Node".to_string(), None, vec![mk(vec![tinline(T_KW0 + 3, false), n(1)])]));
            let mut leaf = vec![mk(vec![tsym(T_NUM), lp(), u, rp()])];
            if c.pick(2) == 0 {
                leaf.push(mk(vec![tsym(T_ID)]));
            }
            body.push(("Leaf".to_string(), None, leaf));
        }
        _ => {
            // vector of structs with an optional vector inside
            let left = c.pick(2) == 0;
            let mut u = n(0);
            u.rep = Some((RepOp::Opt, None));
            let rec = if left { vec![n(0), n(1)] } else { vec![n(1), n(0)] };
            body.push(("Items".to_string(), Some("vec".to_string()), vec![mk(rec), mk(vec![n(1)])]));
            body.push(("Node".to_string(), None, vec![mk(vec![tsym(T_ID), lp(), u, rp()])]));
        }
    }
    let mut rules: Vec<RuleSpec> = vec![
        RuleSpec { name: "S".into(), annotation: None, meta: Meta::default(), alts: vec![] },
        RuleSpec { name: "Stmt".into(), annotation: None, meta: Meta::default(), alts: vec![] },
    ];
    let nbody = body.len();
    for (name, annotation, alts) in body {
        rules.push(RuleSpec { name, annotation, meta: Meta::default(), alts });
    }
    // statements: every body rule, or only one of them; in either order
    let mut order: Vec<usize> = (0..nbody).collect();
    if c.pick(2) == 0 {
        order.reverse();
    }
    if nbody > 1 && c.pick(3) == 0 {
        order.truncate(1);
    }
    rules[1].alts = order
        .iter()
        .map(|k| AltSpec {
            syms: vec![tsym(T_KW0 + 4 + k), tsym(T_BANG), SymUse::plain(Sym::N(2 + k)), tsym(T_SEMI)],
            meta: Meta::default(),
            empties: vec![],
        })
        .collect();
    let mut s_use = SymUse::plain(Sym::N(1));
    s_use.rep = Some((if c.pick(2) == 0 { RepOp::Plus } else { RepOp::Star }, None));
    rules[0].alts = vec![AltSpec { syms: vec![s_use], meta: Meta::default(), empties: vec![] }];
    GrammarSpec { terms, rules, layout: None }
}

/// G-rec with one more alternative on every `@vec` rule that does not fit the documented
/// `A: A B | B` pattern (a keyword-only alternative or one with three references), before or
/// after the pattern's alternatives. Only totality of the compiler is claimed for these (C16).
pub fn build_rec_weird(tape: &[u16]) -> GrammarSpec {
    let mut g = build_rec(tape);
    let v = tape.last().copied().unwrap_or(0) as usize;
    for r in g.rules.iter_mut().filter(|r| r.annotation.as_deref() == Some("vec")) {
        let alt = if v % 2 == 0 {
            AltSpec { syms: vec![tinline(T_KW0 + 7, false)], meta: Meta::default(), empties: vec![] }
        } else {
            AltSpec { syms: vec![tsym(T_NUM), tsym(T_ID), tsym(T_NUM)], meta: Meta::default(), empties: vec![] }
        };
        let at = match (v / 2) % 3 {
            0 => 0,
            1 => 1.min(r.alts.len()),
            _ => r.alts.len(),
        };
        r.alts.insert(at, alt);
    }
    g
}

/// G-kw: grammars without any content (regex) terminal: enums of keywords, structs of such
/// enums, optional and repeated keywords. Pure function of the tape.
pub fn build_kw(tape: &[u16]) -> GrammarSpec {
    let mut c = Cursor::new(tape);
    let terms: Vec<TermSpec> = ast_terms().into_iter().filter(|t| !t.is_regex()).collect();
    let mk = |syms: Vec<SymUse>| AltSpec { syms, meta: Meta::default(), empties: vec![] };
    let kw = |k: usize, inline: bool| if inline { tinline(T_KW0 + (k % 8), k % 2 == 0) } else { tsym(T_KW0 + (k % 8)) };
    let n = |k: usize| SymUse::plain(Sym::N(k));
    // 0 S (start), 1 Decl (struct of the others), 2 Kind (enum), 3 Mode (enum / optional)
    let inline = c.pick(2) == 0;
    let mut decl = vec![n(2), n(3)];
    if c.pick(2) == 0 {
        decl.insert(1, tinline(T_COLON, false));
    }
    if c.pick(3) == 0 {
        decl[0] = named(decl[0].clone(), "kind", false);
    }
    let mut mode = vec![mk(vec![kw(2, inline)]), mk(vec![kw(3, inline)])];
    if c.pick(3) == 0 {
        mode.push(mk(vec![]));
    }
    let mut kind = vec![mk(vec![kw(0, inline)]), mk(vec![kw(1, inline)])];
    if c.pick(3) == 0 {
        kind.push(mk(vec![kw(4, inline), n(3)]));
    }
    let mut s_use = n(1);
    match c.pick(3) {
        0 => s_use.rep = Some((RepOp::Plus, None)),
        1 => s_use.rep = Some((RepOp::Star, Some(T_COMMA))),
        _ => {}
    }
    let rules = vec![
        RuleSpec { name: "S".into(), annotation: None, meta: Meta::default(), alts: vec![mk(vec![s_use, tsym(T_SEMI)])] },
        RuleSpec { name: "Decl".into(), annotation: None, meta: Meta::default(), alts: vec![mk(decl)] },
        RuleSpec { name: "Kind".into(), annotation: None, meta: Meta::default(), alts: kind },
        RuleSpec { name: "Mode".into(), annotation: None, meta: Meta::default(), alts: mode },
    ];
    GrammarSpec { terms, rules, layout: None }
}

pub fn g_rec() -> impl Strategy<Value = Vec<u16>> {
    proptest::collection::vec(any::<u16>(), 12..16)
}

pub fn g_ast() -> impl Strategy<Value = Vec<u16>> {
    proptest::collection::vec(any::<u16>(), 20..90)
}
