//! C16 — the compiler is total: any grammar text gives a parser or a diagnostic.
//! Generated valid texts, token / character level mutations (incl. the constructs the grammar of
//! grammars accepts but the builder does not implement), repo grammars as seeds, raw Unicode;
//! every text goes through the real `Settings::process_grammar` (files in a scratch dir) and
//! through the table hook.

use crate::compile::{guarded, panic_sig, Algo, Cfg, TT};
use crate::gen::{self, pick};
use crate::runner::{Outcome, Prop, Stats, Tier};
use crate::spec::*;
use proptest::prelude::*;
use rustemo_compiler::{BuilderType, GeneratorTableType, LexerType};
use serde::{Deserialize, Serialize};
use serde_json::{json, Value};
use std::path::PathBuf;
use std::sync::OnceLock;

pub struct C16;

#[derive(Clone, Debug, Serialize, Deserialize)]
pub enum Base {
    Spec(GrammarSpec),
    Repo(u16),
    Raw(String),
    /// G-ast tape (AST-shape-rich grammars)
    Ast(Vec<u16>),
    /// G-rec tape with an alternative on every `@vec` rule that does not fit the documented pattern
    RecWeird(Vec<u16>),
    /// G-kw tape (no content terminal)
    Kw(Vec<u16>),
}

#[derive(Clone, Debug, Serialize, Deserialize)]
pub struct Case {
    pub base: Base,
    /// (op, position, what)
    pub mutations: Vec<(u8, u16, u16)>,
    pub glr: bool,
    pub table: u8,
    pub ps: bool,
    pub pse: bool,
    pub builder: u8,
    pub arrays: bool,
    pub custom_lexer: bool,
    pub dot: bool,
}

pub const DICT: &[&str] = &[
    "*!", "+!", "?!", "(", ")", "[", "]", "{", "}", ":", ";", "|", ",", "=", "?=", "*", "+", "?",
    "STOP", "EMPTY", "AUG", "AUGL", "Layout", "layout", "terminals", "import", "as", "left", "right",
    "reduce", "shift", "nops", "nopse", "dynamic", "prefer", "finish", "nofinish", "@vec", "@x",
    "fn", "type", "Self", "self", "crate", "A.B", "a.b.c", "_", "__", "99999999999", "4294967296",
    "0", "100", "1.5", "1e5", "true", "false", "'a'", "\"a\"", "''", "'\\''", "/a/", "/(/", "//", "/\\//",
    "/[/", "'x' 'x'", "S", "A", "B", "Ta", "Tb", "Num", "X1", "S0", "A1", "AOpt", "A0", "// c\n", "/* c */",
    "/*", "*/", "\n", "kind", "priority: 5", "k: 'v'", "é", "\u{0}", "\u{feff}", "T: ;", "T: 'a' {15};",
    "T: 'a' {200};", "T: {left};", "import 'x.rustemo' as m;",
    "Type", "Fn", "Match", "Loop", "Struct", "Mod", "Type: Num;", "Fn: /f/;",
];

/// meta-data blocks inserted right after a name (rule, production symbol or terminal level)
pub const META_DICT: &[&str] = &[
    "{A.B}", "{a.b}", "{kind: 'x y'}", "{kind: \"fn\"}", "{fn}", "{Self}", "{kind: 5}", "{kind: 1.5}",
    "{priority: 'a'}", "{left, right}", "{left, 5, nops}", "{99999999999}", "{-1}", "{k: 1.5, j: true}",
    "{kind: ''}", "{Kind}", "{K, K}", "{5, 6}", "{dynamic}", "{prefer, finish}", "{kind: 'é'}", "{_}", "{nopse, nops}",
];

/// terminal definitions appended to the end of the text (the `terminals` section is last)
pub const TERM_DICT: &[&str] = &[
    "Unused1: ;", "Unused2: ;\nUnused3: 'u';", "Unused4: 'u4' {15};", "Unused5: /u5/ {left};", "Unused6: {5};",
    "Unused7: 'a';", "Unused8: '';", "Unused9: //;", "UnusedA: 'ua' {prefer, dynamic};", "UnusedB: /\\d+/ {200};",
    "Layout: ;", "STOP: 's';", "EMPTY: ;", "UnusedC: ;\nUnusedC: ;", "UnusedD: 'x' {kind: K};",
];

/// Layout rules (inserted in front of the `terminals` section) with the terminals they need
/// (appended at the end); some of them ambiguous or nullable in several ways
pub const LAYOUT_DICT: &[(&str, &str)] = &[
    ("Layout: LWsX? LCmX? LWsX?;", "LWsX: /\\s+/;\nLCmX: /\\/\\/.*/;"),
    ("Layout: LItemX*;\nLItemX: LWsX | LCmX;", "LWsX: /\\s+/;\nLCmX: /\\/\\/.*/;"),
    ("Layout: LWsX LWsX | LWsX | EMPTY;", "LWsX: /\\s/;"),
    ("Layout: EMPTY;", ""),
    ("Layout: Layout LWsX | EMPTY;", "LWsX: /\\s+/;"),
    ("Layout: LAX LBX | LAX;\nLAX: LWsX | EMPTY;\nLBX: LWsX | EMPTY;", "LWsX: /\\s+/;"),
];

fn repo_grammars() -> &'static Vec<String> {
    static G: OnceLock<Vec<String>> = OnceLock::new();
    G.get_or_init(|| {
        let mut files: Vec<PathBuf> = vec![];
        fn walk(d: &std::path::Path, out: &mut Vec<PathBuf>, depth: usize) {
            if depth > 8 {
                return;
            }
            if let Ok(rd) = std::fs::read_dir(d) {
                for e in rd.flatten() {
                    let p = e.path();
                    if p.file_name().map(|n| n == "target" || n == ".git").unwrap_or(false) {
                        continue;
                    }
                    if p.is_dir() {
                        walk(&p, out, depth + 1);
                    } else if p.extension().map(|x| x == "rustemo").unwrap_or(false) {
                        out.push(p);
                    }
                }
            }
        }
        walk(std::path::Path::new("/repo"), &mut files, 0);
        files.sort();
        let v: Vec<String> = files
            .iter()
            .filter_map(|f| std::fs::read_to_string(f).ok())
            .filter(|s| s.len() < 1500)
            .collect();
        if v.is_empty() {
            vec!["S: 'a';\nterminals\nA: 'a';\n".to_string()]
        } else {
            v
        }
    })
}

/// split into coarse tokens: words, quoted strings, regexes and single punctuation characters
fn coarse_tokens(s: &str) -> Vec<String> {
    let mut out = vec![];
    let cs: Vec<char> = s.chars().collect();
    let mut i = 0;
    while i < cs.len() {
        let c = cs[i];
        if c.is_whitespace() {
            let mut j = i;
            while j < cs.len() && cs[j].is_whitespace() {
                j += 1;
            }
            out.push(cs[i..j].iter().collect());
            i = j;
        } else if c.is_alphanumeric() || c == '_' {
            let mut j = i;
            while j < cs.len() && (cs[j].is_alphanumeric() || cs[j] == '_' || cs[j] == '.') {
                j += 1;
            }
            out.push(cs[i..j].iter().collect());
            i = j;
        } else if c == '\'' || c == '"' || c == '/' {
            let mut j = i + 1;
            while j < cs.len() && cs[j] != c && cs[j] != '\n' {
                if cs[j] == '\\' {
                    j += 1;
                }
                j += 1;
            }
            let j = (j + 1).min(cs.len());
            out.push(cs[i..j].iter().collect());
            i = j;
        } else {
            out.push(c.to_string());
            i += 1;
        }
    }
    out
}

pub fn text_of(c: &Case) -> String {
    let base = match &c.base {
        Base::Spec(s) => s.render(),
        Base::Repo(i) => {
            let g = repo_grammars();
            g[pick(*i, g.len())].clone()
        }
        Base::Raw(s) => s.clone(),
        Base::Ast(t) => gen::build_ast(t).render(),
        Base::RecWeird(t) => gen::build_rec_weird(t).render(),
        Base::Kw(t) => gen::build_kw(t).render(),
    };
    let mut toks = coarse_tokens(&base);
    for (op, pos, what) in &c.mutations {
        let n = toks.len();
        match op % 10 {
            0 => {
                let i = pick(*pos, n + 1);
                toks.insert(i, format!(" {} ", DICT[pick(*what, DICT.len())]));
            }
            1 if n > 0 => {
                toks.remove(pick(*pos, n));
            }
            2 if n > 0 => {
                let i = pick(*pos, n);
                toks[i] = DICT[pick(*what, DICT.len())].to_string();
            }
            3 if n > 1 => {
                let i = pick(*pos, n - 1);
                toks.swap(i, i + 1);
            }
            4 if n > 0 => {
                let i = pick(*pos, n);
                let t = toks[i].clone();
                toks.insert(i, t);
            }
            5 if n > 0 => {
                // character level: delete one char of a token
                let i = pick(*pos, n);
                let cs: Vec<char> = toks[i].chars().collect();
                if !cs.is_empty() {
                    let k = pick(*what, cs.len());
                    toks[i] = cs.iter().enumerate().filter(|(j, _)| *j != k).map(|(_, c)| *c).collect();
                }
            }
            6 if n > 0 => {
                // truncate the text here
                toks.truncate(pick(*pos, n));
            }
            9 => {
                // a Layout rule in front of the terminals section + its terminals at the end
                let (rule, terms) = LAYOUT_DICT[pick(*what, LAYOUT_DICT.len())];
                match toks.iter().position(|t| t == "terminals") {
                    Some(i) => {
                        toks.insert(i, format!("{rule}\n"));
                        toks.push(format!("\n{terms}\n"));
                    }
                    None => toks.push(format!("\n{rule}\nterminals\n{terms}\n")),
                }
            }
            8 => {
                // one more terminal definition at the end (unused by the rules)
                toks.push(format!("\n{}\n", TERM_DICT[pick(*what, TERM_DICT.len())]));
            }
            7 if n > 0 => {
                // a meta-data block right after a name (rule level when the name starts a rule)
                let words: Vec<usize> = toks
                    .iter()
                    .enumerate()
                    .filter(|(_, t)| t.chars().next().map(|c| c.is_alphabetic()).unwrap_or(false))
                    .map(|(i, _)| i)
                    .collect();
                if !words.is_empty() {
                    let i = words[pick(*pos, words.len())];
                    toks.insert(i + 1, format!(" {}", META_DICT[pick(*what, META_DICT.len())]));
                }
            }
            _ => {}
        }
    }
    toks.concat()
}

pub fn cfg_of(c: &Case) -> Cfg {
    Cfg {
        algo: if c.glr { Algo::GLR } else { Algo::LR },
        table: match c.table % 4 {
            0 => None,
            1 => Some(TT::Lalr),
            2 => Some(TT::Pager),
            _ => Some(TT::Rn),
        },
        prefer_shifts: Some(c.ps),
        pse: Some(c.pse),
        most_specific: None,
        longest: None,
        order: None,
    }
}

pub fn scratch_root() -> PathBuf {
    PathBuf::from(std::env::var("VERIF_SCRATCH").unwrap_or_else(|_| "/var/tmp".into()))
}

thread_local! {
    static DIR: std::cell::RefCell<Option<PathBuf>> = const { std::cell::RefCell::new(None) };
}

pub fn thread_dir(tag: &str) -> PathBuf {
    DIR.with(|d| {
        let mut d = d.borrow_mut();
        if d.is_none() {
            let p = scratch_root().join(format!(
                "verif-{tag}-{}-{}",
                std::process::id(),
                std::thread::current().name().unwrap_or("t").to_string()
            ));
            let _ = std::fs::remove_dir_all(&p);
            std::fs::create_dir_all(&p).expect("scratch dir");
            *d = Some(p);
        }
        d.clone().unwrap()
    })
}

pub fn classify_err(e: &str) -> &'static str {
    if e.contains("Syntax error") || e.contains("Expected") {
        "err-syntax"
    } else if e.contains("Unexisting symbol") {
        "err-undefined-symbol"
    } else if e.contains("not defined in the") || e.contains("is not defined") {
        "err-undefined-terminal"
    } else if e.contains("Recognizer not defined") {
        "err-recognizer"
    } else if e.contains("nfinite recursion") || e.contains("First set empty") {
        "err-recursion"
    } else if e.contains("valid Rust identifier") {
        "err-identifier"
    } else if e.contains("conflicts") {
        "err-conflicts"
    } else if e.contains("Priority") {
        "err-priority"
    } else {
        "err-other"
    }
}

impl Prop for C16 {
    type Case = Case;
    fn id(&self) -> &'static str {
        "C16"
    }
    fn strategy(&self, tier: Tier) -> BoxedStrategy<Case> {
        let nmut = match tier {
            Tier::Quick => 0..5,
            Tier::Thorough => 0..9,
        };
        let base = prop_oneof![
            5 => gen::g_lang(gen::LangParams::full()).prop_map(Base::Spec),
            2 => any::<u16>().prop_map(Base::Repo),
            1 => gen::g_ast().prop_map(Base::Ast),
            1 => gen::g_rec().prop_map(Base::RecWeird),
            1 => gen::g_rec().prop_map(Base::Kw),
            1 => "\\PC{0,80}".prop_map(Base::Raw),
            1 => "[A-Za-z:;|' \\n{}()\\[\\]*+?=,0-9/@.]{0,80}".prop_map(Base::Raw),
        ];
        (
            base,
            proptest::collection::vec((any::<u8>(), any::<u16>(), any::<u16>()), nmut),
            any::<bool>(),
            any::<u8>(),
            any::<bool>(),
            any::<bool>(),
            0u8..3,
            any::<bool>(),
            prop::bool::weighted(0.2),
            prop::bool::weighted(0.3),
        )
            .prop_map(|(base, mutations, glr, table, ps, pse, builder, arrays, custom_lexer, dot)| Case {
                base,
                mutations,
                glr,
                table,
                ps,
                pse,
                builder,
                arrays,
                custom_lexer,
                dot,
            })
            .boxed()
    }
    fn cases(&self, tier: Tier) -> u32 {
        match tier {
            Tier::Quick => 12_000,
            Tier::Thorough => 250_000,
        }
    }
    fn rule(&self) -> String {
        "case = grammar text: generated valid text using every construct of the grammar language \
         (alternatives, EMPTY, named and ?= assignments, inline strings in both quote styles, ? * + \
         with and without [separator], rule / production / terminal meta-data, production kinds, user \
         meta-data), or an AST-shape-rich grammar (G-ast; G-rec with an extra `@vec` alternative outside the documented pattern; keyword-only G-kw), or a .rustemo file of the repository, or a raw string; then 0..4 token / \
         character level mutations (meta-data blocks from a second dictionary right after a name; an unused terminal definition from a third dictionary appended at the end; a Layout rule (some ambiguous / nullable in several ways) from a fourth dictionary inserted in front of the terminals section; insert / replace with a dictionary of 100 entries incl. greedy \
         operators, groups, several modifiers, reserved names, Rust keywords, dotted names, huge \
         integers, broken strings and regexes; delete, swap, duplicate, truncate) x {LR,GLR} x table \
         type x prefer_shifts x prefer_shifts_over_empty x builder type x generated table layout x \
         lexer type x dot. Oracle: Settings::process_grammar (real files in a scratch directory) and \
         the table hook return Ok or Err(e) with a non-empty message; no panic. non-trivial = text \
         that gets past the grammar-of-grammars (result is Ok or a non-syntax error); distinct by \
         (text, settings)"
            .into()
    }
    fn assumptions(&self) -> Vec<String> {
        vec![
            "scratch files live under ${VERIF_SCRATCH:-/var/tmp}/verif-c16-<pid>-<worker> and are removed at the end".into(),
            "regular expressions inside terminals are not compiled by the compiler (they are only emitted), so invalid regexes are not an error at this stage".into(),
        ]
    }
    fn describe(&self, case: &Case) -> Value {
        json!({"text": text_of(case), "settings": format!("{:?}", cfg_of(case)), "builder": case.builder,
               "arrays": case.arrays, "custom_lexer": case.custom_lexer, "dot": case.dot})
    }
    fn check(&self, case: &Case, st: &mut Stats) -> Outcome {
        let text = text_of(case);
        let cfg = cfg_of(case);
        let dir = thread_dir("c16");
        let gpath = dir.join("g.rustemo");
        for f in ["g.rs", "g_actions.rs", "g.dot"] {
            let _ = std::fs::remove_file(dir.join(f));
        }
        if std::fs::write(&gpath, &text).is_err() {
            st.discard("cannot-write-scratch");
            return Outcome::Pass;
        }
        let settings = cfg
            .settings()
            .root_dir(dir.clone())
            .out_dir_root(dir.clone())
            .out_dir_actions_root(dir.clone())
            .builder_type(match case.builder {
                0 => BuilderType::Default,
                1 => BuilderType::Generic,
                _ => BuilderType::Custom,
            })
            .generator_table_type(if case.arrays { GeneratorTableType::Arrays } else { GeneratorTableType::Functions })
            .lexer_type(if case.custom_lexer { LexerType::Custom } else { LexerType::Default })
            .dot(case.dot)
            .force(true);
        st.sub();
        let ctx = || format!("text:\n{text}\nsettings: {cfg:?} builder={} arrays={} custom_lexer={} dot={}", case.builder, case.arrays, case.custom_lexer, case.dot);
        // structural class for signatures: the text mentions a reserved symbol name
        let reserved = coarse_tokens(&text).iter().any(|t| matches!(t.as_str(), "STOP" | "AUG" | "AUGL"));
        // (reserved names are rejected by the grammar builder since the fix of C16's reserved-name
        // defect, so the class no longer takes part in signatures; it is kept as a histogram class)
        if reserved {
            st.class("text-mentions-reserved-name");
        }
        // structural class of the recorded finding: a rule / terminal whose snake-case form is a
        // Rust keyword (`Type` -> `type`) reaches parse_quote! as a field / parameter / fn name
        const KW: &[&str] = &[
            "as", "break", "const", "continue", "crate", "else", "enum", "extern", "false", "fn", "for", "if", "impl", "in", "let", "loop",
            "match", "mod", "move", "mut", "pub", "ref", "return", "self", "static", "struct", "super", "trait", "true", "type", "unsafe",
            "use", "where", "while", "async", "await", "dyn", "abstract", "become", "box", "do", "final", "macro", "override", "priv",
            "typeof", "unsized", "virtual", "yield", "try",
        ];
        let kw_symbol = coarse_tokens(&text).iter().any(|t| {
            t.chars().next().map(|c| c.is_uppercase()).unwrap_or(false) && KW.contains(&t.to_lowercase().as_str()) && !KW.contains(&t.as_str())
        });
        let rsv = "";
        let r = guarded(|| settings.process_grammar(&gpath));
        let class = match r {
            Err(p) => {
                if kw_symbol && p.file.ends_with("parse_quote.rs") {
                    return Outcome::fail(
                        "process_grammar|panic|parse_quote|symbol-whose-snake-case-is-a-keyword".to_string(),
                        format!("panic at {}:{}: {}\n{}", p.file, p.line, p.message, ctx()),
                    );
                }
                return Outcome::fail(
                    format!("process_grammar|{}{rsv}", panic_sig(&p)),
                    format!("panic at {}:{}: {}\n{}", p.file, p.line, p.message, ctx()),
                )
            }
            Ok(Ok(())) => {
                if !dir.join("g.rs").exists() {
                    return Outcome::fail("ok-without-parser-file", ctx());
                }
                "ok"
            }
            Ok(Err(e)) => {
                let m = format!("{e}");
                if m.trim().is_empty() {
                    return Outcome::fail("empty-error-message", ctx());
                }
                classify_err(&m)
            }
        };
        st.class(class);
        // the hook path (table only)
        let s2 = cfg.settings();
        if let Err(p) = guarded(|| rustemo_compiler::verif::compile_str(&text, &s2).map(|_| ())) {
            return Outcome::fail(
                format!("compile_str|{}{rsv}", panic_sig(&p)),
                format!("panic at {}:{}: {}\n{}", p.file, p.line, p.message, ctx()),
            );
        }
        if class != "err-syntax" {
            st.nontrivial(&format!("{text}\n{cfg:?}{}{}{}", case.builder, case.arrays, case.dot), || {
                json!({"text": text, "settings": format!("{cfg:?}"), "builder": case.builder, "result": class})
            });
        }
        Outcome::Pass
    }
}

/// remove the scratch directories of this process (called by the runner at the end)
pub fn cleanup() {
    if let Ok(rd) = std::fs::read_dir(scratch_root()) {
        for e in rd.flatten() {
            let n = e.file_name().to_string_lossy().to_string();
            if n.starts_with("verif-") && n.contains(&format!("-{}-", std::process::id())) {
                let _ = std::fs::remove_dir_all(e.path());
            }
        }
    }
}
