//! Canonical LR(1) automaton built from scratch (own nullable / FIRST / closure / goto),
//! LALR(1) by core merging. Independent of rustemo.

use crate::spec::{Bnf, Sym};
use std::collections::{BTreeMap, BTreeSet, HashMap};

/// Production numbering of the reference: 0 = augmented `S' -> start`, then all alternatives
/// of all nonterminals in order.
#[derive(Clone, Debug)]
pub struct RProd {
    pub lhs: Option<usize>, // None = augmented
    pub alt: usize,
    pub rhs: Vec<Sym>,
}

pub struct RefGrammar {
    pub prods: Vec<RProd>,
    pub by_nt: Vec<Vec<usize>>,
    pub nullable: Vec<bool>,
    pub first: Vec<BTreeSet<usize>>, // per nonterminal: set of terminals
    pub nterms: usize,
    pub stop: usize, // lookahead symbol for end of input (== nterms)
}

impl RefGrammar {
    pub fn new(g: &Bnf, start: usize) -> Self {
        let mut prods = vec![RProd { lhs: None, alt: 0, rhs: vec![Sym::N(start)] }];
        let mut by_nt = vec![vec![]; g.nts.len()];
        for (i, nt) in g.nts.iter().enumerate() {
            for (ai, a) in nt.alts.iter().enumerate() {
                by_nt[i].push(prods.len());
                prods.push(RProd { lhs: Some(i), alt: ai, rhs: a.clone() });
            }
        }
        let nullable = g.nullable();
        let mut first: Vec<BTreeSet<usize>> = vec![BTreeSet::new(); g.nts.len()];
        loop {
            let mut ch = false;
            for (i, nt) in g.nts.iter().enumerate() {
                for a in &nt.alts {
                    for s in a {
                        match s {
                            Sym::T(t) => {
                                ch |= first[i].insert(*t);
                                break;
                            }
                            Sym::N(j) => {
                                let add: Vec<usize> = first[*j].iter().copied().collect();
                                for t in add {
                                    ch |= first[i].insert(t);
                                }
                                if !nullable[*j] {
                                    break;
                                }
                            }
                        }
                    }
                }
            }
            if !ch {
                break;
            }
        }
        RefGrammar { prods, by_nt, nullable, first, nterms: g.nterms, stop: g.nterms }
    }

    /// FIRST of a symbol string followed by lookahead `la`.
    fn first_of(&self, syms: &[Sym], la: usize) -> BTreeSet<usize> {
        let mut out = BTreeSet::new();
        for s in syms {
            match s {
                Sym::T(t) => {
                    out.insert(*t);
                    return out;
                }
                Sym::N(j) => {
                    out.extend(self.first[*j].iter().copied());
                    if !self.nullable[*j] {
                        return out;
                    }
                }
            }
        }
        out.insert(la);
        out
    }

    pub fn suffix_nullable(&self, p: usize, dot: usize) -> bool {
        self.prods[p].rhs[dot..].iter().all(|s| match s {
            Sym::T(_) => false,
            Sym::N(j) => self.nullable[*j],
        })
    }
}

pub type Item = (usize, usize, usize); // (prod, dot, lookahead)
pub type Core = BTreeSet<(usize, usize)>;

#[derive(Clone, Debug)]
pub struct CState {
    pub items: BTreeSet<Item>,
    pub trans: BTreeMap<Sym, usize>,
}

impl CState {
    pub fn core(&self) -> Core {
        self.items.iter().map(|(p, d, _)| (*p, *d)).collect()
    }
    pub fn las(&self) -> BTreeMap<(usize, usize), BTreeSet<usize>> {
        let mut m: BTreeMap<(usize, usize), BTreeSet<usize>> = BTreeMap::new();
        for (p, d, l) in &self.items {
            m.entry((*p, *d)).or_default().insert(*l);
        }
        m
    }
}

pub struct Canonical {
    pub states: Vec<CState>,
}

fn closure(g: &RefGrammar, kernel: BTreeSet<Item>) -> BTreeSet<Item> {
    let mut items = kernel.clone();
    let mut todo: Vec<Item> = kernel.into_iter().collect();
    while let Some((p, d, la)) = todo.pop() {
        let rhs = &g.prods[p].rhs;
        if d < rhs.len() {
            if let Sym::N(b) = rhs[d] {
                let las = g.first_of(&rhs[d + 1..], la);
                for &bp in &g.by_nt[b] {
                    for &l in &las {
                        let it = (bp, 0, l);
                        if items.insert(it) {
                            todo.push(it);
                        }
                    }
                }
            }
        }
    }
    items
}

pub const STATE_CAP: usize = 4000;

impl Canonical {
    /// Returns None if the state cap is exceeded.
    pub fn build(g: &RefGrammar) -> Option<Canonical> {
        let start = closure(g, BTreeSet::from([(0usize, 0usize, g.stop)]));
        let mut index: HashMap<BTreeSet<Item>, usize> = HashMap::new();
        let mut states = vec![CState { items: start.clone(), trans: BTreeMap::new() }];
        index.insert(start, 0);
        let mut i = 0;
        while i < states.len() {
            let mut per_sym: BTreeMap<Sym, BTreeSet<Item>> = BTreeMap::new();
            for (p, d, la) in &states[i].items {
                let rhs = &g.prods[*p].rhs;
                if *d < rhs.len() {
                    per_sym.entry(rhs[*d]).or_default().insert((*p, d + 1, *la));
                }
            }
            for (sym, kernel) in per_sym {
                let cl = closure(g, kernel);
                let idx = if let Some(idx) = index.get(&cl) {
                    *idx
                } else {
                    let idx = states.len();
                    if idx >= STATE_CAP {
                        return None;
                    }
                    index.insert(cl.clone(), idx);
                    states.push(CState { items: cl, trans: BTreeMap::new() });
                    idx
                };
                states[i].trans.insert(sym, idx);
            }
            i += 1;
        }
        Some(Canonical { states })
    }
}

/// LALR(1) automaton obtained by merging canonical states with equal cores.
pub struct Lalr {
    pub cores: Vec<Core>,
    pub las: Vec<BTreeMap<(usize, usize), BTreeSet<usize>>>,
    pub trans: Vec<BTreeMap<Sym, usize>>,
}

impl Lalr {
    pub fn from_canonical(c: &Canonical) -> Lalr {
        let mut idx: BTreeMap<Core, usize> = BTreeMap::new();
        let mut map = vec![0usize; c.states.len()];
        let mut cores = vec![];
        for (i, s) in c.states.iter().enumerate() {
            let core = s.core();
            let n = idx.len();
            let e = *idx.entry(core.clone()).or_insert_with(|| {
                cores.push(core);
                n
            });
            map[i] = e;
        }
        let mut las = vec![BTreeMap::new(); cores.len()];
        let mut trans = vec![BTreeMap::new(); cores.len()];
        for (i, s) in c.states.iter().enumerate() {
            let m = map[i];
            for (k, v) in s.las() {
                let e: &mut BTreeSet<usize> = las[m].entry(k).or_default();
                e.extend(v);
            }
            for (sym, t) in &s.trans {
                trans[m].insert(*sym, map[*t]);
            }
        }
        Lalr { cores, las, trans }
    }

    /// Number of (state, lookahead) cells with more than one action.
    pub fn conflicts(&self, g: &RefGrammar) -> usize {
        let mut n = 0;
        for (i, _core) in self.cores.iter().enumerate() {
            let mut cell: BTreeMap<usize, usize> = BTreeMap::new();
            for sym in self.trans[i].keys() {
                if let Sym::T(t) = sym {
                    *cell.entry(*t).or_default() += 1;
                }
            }
            for ((p, d), las) in &self.las[i] {
                if *d == g.prods[*p].rhs.len() {
                    for l in las {
                        *cell.entry(*l).or_default() += 1;
                    }
                }
            }
            n += cell.values().filter(|c| **c > 1).count();
        }
        n
    }
}

/// Conflicts of the canonical LR(1) automaton itself.
pub fn canonical_conflicts(c: &Canonical, g: &RefGrammar) -> usize {
    let mut n = 0;
    for s in &c.states {
        let mut cell: BTreeMap<usize, BTreeSet<(u8, usize)>> = BTreeMap::new();
        for sym in s.trans.keys() {
            if let Sym::T(t) = sym {
                cell.entry(*t).or_default().insert((0, 0));
            }
        }
        for (p, d, l) in &s.items {
            if *d == g.prods[*p].rhs.len() {
                cell.entry(*l).or_default().insert((1, *p));
            }
        }
        n += cell.values().filter(|c| c.len() > 1).count();
    }
    n
}

#[cfg(test)]
mod tests {
    use super::*;
    use crate::spec::NtDef;

    #[test]
    fn non_lalr_grammar() {
        use Sym::*;
        // S: a A d | b B d | a B e | b A e; A: c; B: c;   LR(1) but not LALR(1)
        let g = Bnf {
            nterms: 5,
            term_names: ["a", "b", "c", "d", "e"].iter().map(|s| s.to_string()).collect(),
            nts: vec![
                NtDef {
                    name: "S".into(),
                    alts: vec![
                        vec![T(0), N(1), T(3)],
                        vec![T(1), N(2), T(3)],
                        vec![T(0), N(2), T(4)],
                        vec![T(1), N(1), T(4)],
                    ],
                },
                NtDef { name: "A".into(), alts: vec![vec![T(2)]] },
                NtDef { name: "B".into(), alts: vec![vec![T(2)]] },
            ],
            start: 0,
        };
        let rg = RefGrammar::new(&g, 0);
        let c = Canonical::build(&rg).unwrap();
        assert_eq!(canonical_conflicts(&c, &rg), 0);
        let l = Lalr::from_canonical(&c);
        assert!(l.conflicts(&rg) > 0);
        assert!(l.cores.len() < c.states.len());
    }
}
