//! C18 — regenerating actions preserves user edits and only adds what is missing.
//! Stateful / model-based: generated edit histories of the actions file interpreted against the
//! real generator; the model is a list of syn items compared token for token.

use crate::compile::{guarded, panic_sig};
use crate::gen::{self, pick};
use crate::props::c16::thread_dir;
use crate::runner::{Outcome, Prop, Stats, Tier};
use proptest::prelude::*;
use quote::ToTokens;
use rustemo_compiler::Settings;
use serde::{Deserialize, Serialize};
use serde_json::{json, Value};
use std::path::{Path, PathBuf};

pub struct C18;

#[derive(Clone, Debug, Serialize, Deserialize)]
pub enum Op {
    /// delete generated (non-header) items selected by the values
    Delete(Vec<u16>),
    /// replace the body of a function
    RewriteFn(u16),
    /// replace the right-hand side of a type alias / the fields of a struct
    RewriteType(u16),
    /// add a user item of the given kind at the given position
    AddUser(u8, u16),
    /// change the visibility / attributes of a generated function or type (`pub(crate)`,
    /// `pub(super)`, extra attributes), keeping its name
    EditHeader(u16, u8),
    Regenerate,
    RegenerateTwice,
    /// switch to the second grammar and regenerate
    ChangeGrammar,
}

#[derive(Clone, Debug, Serialize, Deserialize)]
pub struct Case {
    pub tape_a: Vec<u16>,
    pub tape_b: Vec<u16>,
    pub loc_info: bool,
    pub ops: Vec<Op>,
    /// all rule and terminal names in lower case (type and action identifiers then coincide)
    #[serde(default)]
    pub lower: bool,
}

fn text_of(tape: &[u16], lower: bool) -> String {
    let s = gen::build_ast(tape);
    if lower {
        s.lowercased().render()
    } else {
        s.render()
    }
}

#[derive(Clone, Debug, PartialEq, Eq)]
pub struct It {
    /// "type" | "fn" | "other"
    pub ns: &'static str,
    pub name: String,
    pub tokens: String,
    pub header: bool,
}

/// Canonical text of an item: printed by prettyplease, which is what the generator itself uses
/// to write the file, so trailing commas and the literal style of doc comments are normalised
/// on both sides of every comparison.
fn canon(item: &syn::Item) -> String {
    let f = syn::File { shebang: None, attrs: vec![], items: vec![item.clone()] };
    prettyplease::unparse(&f)
}

fn classify(item: &syn::Item) -> It {
    let tokens = canon(item);
    let (ns, name) = match item {
        syn::Item::Enum(e) => ("type", e.ident.to_string()),
        syn::Item::Struct(e) => ("type", e.ident.to_string()),
        syn::Item::Type(e) => ("type", e.ident.to_string()),
        syn::Item::Fn(f) => ("fn", f.sig.ident.to_string()),
        syn::Item::Use(_) => ("other", format!("use:{}", item.to_token_stream())),
        _ => ("other", format!("other:{}", item.to_token_stream())),
    };
    let header = matches!(item, syn::Item::Use(_))
        || (ns == "type" && matches!(name.as_str(), "Input" | "Ctx" | "Token"));
    It { ns, name, tokens, header }
}

pub fn parse_items(text: &str) -> Result<Vec<(syn::Item, It)>, String> {
    let f = syn::parse_file(text).map_err(|e| format!("actions file does not parse: {e}"))?;
    Ok(f.items.into_iter().map(|i| {
        let c = classify(&i);
        (i, c)
    }).collect())
}

fn write_items(path: &Path, items: &[syn::Item]) {
    let mut s = String::new();
    for i in items {
        s.push_str(&i.to_token_stream().to_string());
        s.push('\n');
    }
    std::fs::write(path, s).expect("write actions file");
}

fn user_item(kind: u8, n: usize) -> Vec<syn::Item> {
    let f = quote::format_ident!("user_helper_{}", n);
    let s = quote::format_ident!("UserThing{}", n);
    let c = quote::format_ident!("USER_CONST_{}", n);
    let d = quote::format_ident!("documented_{}", n);
    let n32 = n as u32;
    match kind % 6 {
        0 => vec![syn::parse_quote! { pub fn #f() -> u32 { #n32 } }],
        1 => vec![syn::parse_quote! { #[derive(Debug, Clone)] pub struct #s { pub a: u32, pub b: Option<String> } }],
        2 => vec![syn::parse_quote! { pub const #c: u32 = #n32; }],
        3 => vec![
            syn::parse_quote! { pub struct #s(pub u32); },
            syn::parse_quote! { impl #s { pub fn get(&self) -> u32 { self.0 + #n32 } } },
        ],
        4 => vec![syn::parse_quote! { #[allow(unused_imports)] use std::fmt::Debug as #s; }],
        _ => vec![syn::parse_quote! {
            /// A documented user function.
            ///
            /// Second paragraph.
            #[allow(dead_code)]
            pub fn #d(x: u32) -> u32 { x * 2 }
        }],
    }
}

fn settings(loc_info: bool, force: bool) -> Settings {
    Settings::new().builder_loc_info(loc_info).force(force)
}

/// fresh forced generation of the grammar in its own directory; returns the actions items
fn fresh_items(dir: &Path, text: &str, loc_info: bool) -> Result<Option<Vec<It>>, crate::compile::PanicInfo> {
    let _ = std::fs::remove_dir_all(dir);
    std::fs::create_dir_all(dir).expect("scratch");
    let g = dir.join("g.rustemo");
    std::fs::write(&g, text).expect("write");
    let s = settings(loc_info, true);
    let r = guarded(|| s.process_grammar(&g))?;
    if r.is_err() {
        return Ok(None);
    }
    let t = std::fs::read_to_string(dir.join("g_actions.rs")).unwrap_or_default();
    Ok(parse_items(&t).ok().map(|v| v.into_iter().map(|x| x.1).collect()))
}

/// Names of the "main" types: one per grammar symbol (non-terminals incl. repetition helpers,
/// terminals). The generator decides per non-terminal whether its family of types (main type +
/// choice structs) is missing, so only main types and action functions are *required* to be
/// restored; other missing types of a family may be added.
fn main_type_names(text: &str) -> Vec<String> {
    match crate::compile::compile(text, &crate::compile::Cfg::raw(crate::compile::TT::Pager)) {
        Ok(d) => d.nonterminals.iter().map(|n| n.name.clone()).chain(d.terminals.iter().map(|t| t.name.clone())).collect(),
        Err(_) => vec![],
    }
}

struct World {
    dir: PathBuf,
    loc_info: bool,
    counter: usize,
}

impl World {
    fn actions(&self) -> PathBuf {
        self.dir.join("g_actions.rs")
    }
    fn read(&self) -> Result<Vec<(syn::Item, It)>, String> {
        parse_items(&std::fs::read_to_string(self.actions()).map_err(|e| e.to_string())?)
    }
}

fn describe_ops(ops: &[Op]) -> Vec<String> {
    ops.iter().map(|o| format!("{o:?}")).collect()
}

impl Prop for C18 {
    type Case = Case;
    fn id(&self) -> &'static str {
        "C18"
    }
    fn strategy(&self, _tier: Tier) -> BoxedStrategy<Case> {
        let op = prop_oneof![
            3 => proptest::collection::vec(any::<u16>(), 1..4).prop_map(Op::Delete),
            2 => any::<u16>().prop_map(Op::RewriteFn),
            1 => any::<u16>().prop_map(Op::RewriteType),
            2 => (any::<u8>(), any::<u16>()).prop_map(|(k, p)| Op::AddUser(k, p)),
            2 => (any::<u16>(), any::<u8>()).prop_map(|(s, h)| Op::EditHeader(s, h)),
            3 => Just(Op::Regenerate),
            1 => Just(Op::RegenerateTwice),
            1 => Just(Op::ChangeGrammar),
        ];
        (gen::g_ast(), gen::g_ast(), any::<bool>(), proptest::collection::vec(op, 0..9), prop::bool::weighted(0.3))
            .prop_map(|(tape_a, tape_b, loc_info, mut ops, lower)| {
                ops.push(Op::Regenerate);
                Case { tape_a, tape_b, loc_info, ops, lower }
            })
            .boxed()
    }
    fn cases(&self, tier: Tier) -> u32 {
        match tier {
            Tier::Quick => 1600,
            Tier::Thorough => 40_000,
        }
    }
    fn max_shrink_iters(&self) -> u32 {
        600
    }
    fn rule(&self) -> String {
        "case = AST-shape-rich generated grammar A (and B; in 30% all symbol names lower-cased so that type and action identifiers coincide), builder_loc_info on/off, and a generated \
         history of 1..9 operations interpreted on the real actions file: delete a random subset of \
         generated items (type alias / enum / choice struct / action fn), rewrite a function body, \
         rewrite a type, narrow the visibility of / add attributes to a generated function or type \
         (pub(crate), pub(super), #[inline], #[allow(..)]), add user items (fn, struct, const, \
         struct+impl, use, documented fn) at random positions, regenerate (force off), regenerate twice, change the grammar to B and regenerate. \
         Model = list of syn items. After every regeneration: every item of the file before is \
         present token for token in the same relative order; the new items are a subset of {items of a fresh forced generation of the current grammar, by \
         namespace (type / fn) and name} minus {names already present}, each identical to the fresh \
         one, and contain every missing action function and every missing main type (one per \
         grammar symbol; the generator restores the choice structs of a family together with its \
         main type); no (namespace, name) \
         occurs twice; an immediate second regeneration leaves the file byte-identical. \
         non-trivial = history that deletes >= 1 generated item and adds or rewrites >= 1 item \
         before a regeneration"
            .into()
    }
    fn assumptions(&self) -> Vec<String> {
        vec![
            "the file header (use items, Input / Ctx / Token aliases) is never deleted: the generator creates it only for a new file".into(),
            "items are compared as printed by prettyplease (the printer the generator uses) after parsing with syn, so formatting, trailing commas and non-doc comments are outside the check, as documented in the generated file".into(),
        ]
    }
    fn describe(&self, case: &Case) -> Value {
        json!({"grammar_a": text_of(&case.tape_a, case.lower), "grammar_b": text_of(&case.tape_b, case.lower),
               "loc_info": case.loc_info, "ops": describe_ops(&case.ops)})
    }
    fn check(&self, case: &Case, st: &mut Stats) -> Outcome {
        let ta = text_of(&case.tape_a, case.lower);
        let tb = text_of(&case.tape_b, case.lower);
        if case.lower {
            st.class("lower-case-symbol-names");
        }
        let base = thread_dir("c18");
        let work = base.join("work");
        let fresh_a = match fresh_items(&base.join("fresh_a"), &ta, case.loc_info) {
            Ok(Some(f)) => f,
            Ok(None) => {
                st.discard("grammar-a-rejected");
                return Outcome::Pass;
            }
            Err(p) => {
                st.discard(&format!("generator-panic(C16):{}", crate::compile::norm_msg(&p.message).chars().take(40).collect::<String>()));
                return Outcome::Pass;
            }
        };
        let has_dups = |v: &Vec<It>| {
            v.iter().enumerate().any(|(i, a)| a.ns != "other" && v.iter().skip(i + 1).any(|b| b.ns == a.ns && b.name == a.name))
        };
        if has_dups(&fresh_a) {
            // a fresh file that defines a name twice does not compile: C11's subject
            st.discard("fresh-generation-defines-a-name-twice(C11)");
            return Outcome::Pass;
        }
        let fresh_b = match fresh_items(&base.join("fresh_b"), &tb, case.loc_info) {
            Ok(Some(f)) if !has_dups(&f) => Some(f),
            _ => None,
        };
        // initial generation in the work dir
        let _ = std::fs::remove_dir_all(&work);
        std::fs::create_dir_all(&work).expect("scratch");
        let gpath = work.join("g.rustemo");
        std::fs::write(&gpath, &ta).expect("write");
        let s0 = settings(case.loc_info, false);
        match guarded(|| s0.process_grammar(&gpath)) {
            Ok(Ok(())) => {}
            _ => {
                st.discard("initial-generation-failed");
                return Outcome::Pass;
            }
        }
        let mut w = World { dir: work.clone(), loc_info: case.loc_info, counter: 0 };
        let mains_a = main_type_names(&ta);
        let mains_b = main_type_names(&tb);
        let mut current_mains = mains_a.clone();
        let mut current_fresh: Vec<It> = fresh_a.clone();
        let mut current_text = ta.clone();
        let mut deleted = 0usize;
        let mut edited = 0usize;
        let mut hist: Vec<String> = vec![];
        for op in &case.ops {
            hist.push(format!("{op:?}"));
            let ctx = |m: String| {
                format!("grammar:\n{current_text}\nloc_info: {}\nhistory: {:?}\n{m}", w.loc_info, hist)
            };
            let items = match w.read() {
                Ok(i) => i,
                Err(e) => return Outcome::fail("file-unparsable", ctx(e)),
            };
            match op {
                Op::Delete(sel) => {
                    let cand: Vec<usize> = items.iter().enumerate().filter(|(_, (_, c))| !c.header && c.ns != "other").map(|(i, _)| i).collect();
                    if cand.is_empty() {
                        continue;
                    }
                    let mut del: Vec<usize> = sel.iter().map(|v| cand[pick(*v, cand.len())]).collect();
                    del.sort();
                    del.dedup();
                    deleted += del.len();
                    let kept: Vec<syn::Item> = items.iter().enumerate().filter(|(i, _)| !del.contains(i)).map(|(_, x)| x.0.clone()).collect();
                    write_items(&w.actions(), &kept);
                }
                Op::RewriteFn(v) => {
                    let fns: Vec<usize> = items.iter().enumerate().filter(|(_, (i, _))| matches!(i, syn::Item::Fn(_))).map(|(i, _)| i).collect();
                    if fns.is_empty() {
                        continue;
                    }
                    let k = fns[pick(*v, fns.len())];
                    let mut all: Vec<syn::Item> = items.iter().map(|x| x.0.clone()).collect();
                    if let syn::Item::Fn(f) = &mut all[k] {
                        f.block = Box::new(syn::parse_quote! { { let _user_edit = 1; unimplemented!("edited by the user") } });
                        f.attrs.push(syn::parse_quote! { #[allow(unused_variables)] });
                    }
                    edited += 1;
                    write_items(&w.actions(), &all);
                }
                Op::RewriteType(v) => {
                    let tys: Vec<usize> = items.iter().enumerate().filter(|(_, (i, c))| !c.header && matches!(i, syn::Item::Type(_) | syn::Item::Struct(_))).map(|(i, _)| i).collect();
                    if tys.is_empty() {
                        continue;
                    }
                    let k = tys[pick(*v, tys.len())];
                    let mut all: Vec<syn::Item> = items.iter().map(|x| x.0.clone()).collect();
                    match &mut all[k] {
                        syn::Item::Type(t) => t.ty = Box::new(syn::parse_quote! { std::rc::Rc<str> }),
                        syn::Item::Struct(s) => s.attrs.push(syn::parse_quote! { #[doc = "edited by the user"] }),
                        _ => {}
                    }
                    edited += 1;
                    write_items(&w.actions(), &all);
                }
                Op::EditHeader(sel, how) => {
                    let cand: Vec<usize> = items.iter().enumerate().filter(|(_, (_, c))| !c.header && c.ns != "other").map(|(i, _)| i).collect();
                    if cand.is_empty() {
                        continue;
                    }
                    let k = cand[pick(*sel, cand.len())];
                    let mut all: Vec<syn::Item> = items.iter().map(|x| x.0.clone()).collect();
                    let vis: syn::Visibility = match how % 3 {
                        0 => syn::parse_quote! { pub(crate) },
                        1 => syn::parse_quote! { pub(super) },
                        _ => syn::parse_quote! { pub },
                    };
                    let attr: syn::Attribute = syn::parse_quote! { #[allow(dead_code)] };
                    match &mut all[k] {
                        syn::Item::Fn(f) => {
                            f.vis = vis;
                            if how % 3 == 2 {
                                f.attrs.push(syn::parse_quote! { #[inline] });
                            }
                        }
                        syn::Item::Struct(x) => {
                            x.vis = vis;
                            x.attrs.push(attr);
                        }
                        syn::Item::Enum(x) => {
                            x.vis = vis;
                            x.attrs.push(attr);
                        }
                        syn::Item::Type(x) => {
                            x.vis = vis;
                            x.attrs.push(attr);
                        }
                        _ => {}
                    }
                    edited += 1;
                    write_items(&w.actions(), &all);
                }
                Op::AddUser(kind, pos) => {
                    w.counter += 1;
                    let mut all: Vec<syn::Item> = items.iter().map(|x| x.0.clone()).collect();
                    let at = pick(*pos, all.len() + 1);
                    for (j, it) in user_item(*kind, w.counter).into_iter().enumerate() {
                        all.insert(at + j, it);
                    }
                    edited += 1;
                    write_items(&w.actions(), &all);
                }
                Op::Regenerate | Op::RegenerateTwice | Op::ChangeGrammar => {
                    if matches!(op, Op::ChangeGrammar) {
                        match &fresh_b {
                            Some(fb) => {
                                current_fresh = fb.clone();
                                current_mains = mains_b.clone();
                                current_text = tb.clone();
                                std::fs::write(&gpath, &tb).expect("write");
                            }
                            None => continue,
                        }
                    }
                    let ctx = |m: String| {
                        format!("grammar:\n{current_text}\nloc_info: {}\nhistory: {:?}\n{m}", w.loc_info, hist)
                    };
                    st.sub();
                    let before: Vec<It> = items.iter().map(|x| x.1.clone()).collect();
                    let s = settings(case.loc_info, false);
                    match guarded(|| s.process_grammar(&gpath)) {
                        Ok(Ok(())) => {}
                        Ok(Err(e)) => return Outcome::fail("regeneration-error", ctx(format!("{e}"))),
                        Err(p) => return Outcome::fail(format!("regeneration-panic|{}", panic_sig(&p)), ctx(format!("{p:?}"))),
                    }
                    let bytes1 = std::fs::read(w.actions()).unwrap_or_default();
                    let after: Vec<It> = match w.read() {
                        Ok(i) => i.into_iter().map(|x| x.1).collect(),
                        Err(e) => return Outcome::fail("file-unparsable-after-regeneration", ctx(e)),
                    };
                    // 1. every item before is kept token for token, in order (subsequence)
                    let mut j = 0;
                    let mut matched = vec![false; after.len()];
                    for b in &before {
                        let mut found = false;
                        while j < after.len() {
                            if after[j].tokens == b.tokens {
                                matched[j] = true;
                                j += 1;
                                found = true;
                                break;
                            }
                            j += 1;
                        }
                        if !found {
                            let cls = if after.iter().any(|a| a.ns == b.ns && a.name == b.name) { "changed-or-moved" } else { "lost" };
                            let other = after.iter().find(|a| a.ns == b.ns && a.name == b.name).map(|a| a.tokens.clone()).unwrap_or_default();
                            return Outcome::fail(
                                format!("{cls}|{}", b.ns),
                                ctx(format!("item `{}` of the file before the regeneration is not kept (token for token, in order)\nbefore: {}\nafter : {}", b.name, b.tokens, other)),
                            );
                        }
                    }
                    // 2. new items == fresh items whose (ns, name) is not present before
                    let present: Vec<(&str, &str)> = before.iter().filter(|b| b.ns != "other").map(|b| (b.ns, b.name.as_str())).collect();
                    let mut want: Vec<&It> = current_fresh.iter().filter(|f| !f.header && f.ns != "other" && !present.contains(&(f.ns, f.name.as_str()))).collect();
                    let new: Vec<&It> = after.iter().zip(matched.iter()).filter(|(_, m)| !**m).map(|(a, _)| a).collect();
                    for n in &new {
                        match want.iter().position(|wnt| wnt.ns == n.ns && wnt.name == n.name) {
                            Some(k) => {
                                if want[k].tokens != n.tokens {
                                    return Outcome::fail(
                                        format!("added-differs-from-fresh|{}", n.ns),
                                        ctx(format!("added item `{}` is not the freshly generated one:\n{}\nvs fresh\n{}", n.name, n.tokens, want[k].tokens)),
                                    );
                                }
                                want.remove(k);
                            }
                            None => {
                                let cls = if present.contains(&(n.ns, n.name.as_str())) || new.iter().filter(|x| x.ns == n.ns && x.name == n.name).count() > 1 {
                                    "dup"
                                } else {
                                    "extra"
                                };
                                return Outcome::fail(
                                    format!("{cls}|{}", n.ns),
                                    ctx(format!("item `{}` ({}) was added although it is {}", n.name, n.ns,
                                        if cls == "dup" { "already present" } else { "not needed by the grammar" })),
                                );
                            }
                        }
                    }
                    // required: action functions and main types; the other types of a family are
                    // restored only together with their main type (by design of the generator)
                    want.retain(|m| m.ns == "fn" || current_mains.contains(&m.name));
                    if let Some(m) = want.first() {
                        return Outcome::fail(
                            format!("missing|{}", m.ns),
                            ctx(format!("`{}` ({}) is needed by the grammar, is not in the file and was not added", m.name, m.ns)),
                        );
                    }
                    // 3. no (namespace, name) twice
                    for (i, a) in after.iter().enumerate() {
                        if a.ns != "other" && after.iter().skip(i + 1).any(|b| b.ns == a.ns && b.name == a.name) {
                            return Outcome::fail(format!("dup|{}", a.ns), ctx(format!("`{}` occurs twice after the regeneration", a.name)));
                        }
                    }
                    // 4. idempotence
                    if matches!(op, Op::RegenerateTwice) || true {
                        match guarded(|| s.process_grammar(&gpath)) {
                            Ok(Ok(())) => {}
                            _ => return Outcome::fail("second-regeneration-failed", ctx(String::new())),
                        }
                        let bytes2 = std::fs::read(w.actions()).unwrap_or_default();
                        if bytes1 != bytes2 {
                            return Outcome::fail("not-idempotent", ctx("a second regeneration changed the file".into()));
                        }
                    }
                    if deleted >= 1 && edited >= 1 {
                        st.nontrivial(&format!("{current_text}\n{:?}", hist), || {
                            json!({"grammar": current_text, "history": hist, "items_before": before.len(), "items_after": after.len()})
                        });
                    }
                    st.class(if new.is_empty() { "regeneration-added-nothing" } else { "regeneration-added-items" });
                }
            }
        }
        Outcome::Pass
    }
}
