//! C04 — the LR table is a faithful core-preserving compression of canonical LR(1).
//! Per grammar the comparison with an independently built canonical LR(1) automaton is
//! complete over all states, items, lookaheads and action cells.

use super::common::*;
use crate::compile::{has_conflicts, Cfg, TT};
use crate::gen::{self, Cursor, LayoutStyle};
use crate::oracle::lr1::{Canonical, Lalr, RefGrammar};
use crate::oracle::trees::{CharLex, TreeEnum};
use crate::runner::{Outcome, Prop, Stats, Tier};
use crate::spec::*;
use proptest::prelude::*;
use rustemo_compiler::verif::{DAction, Dump};
use serde::{Deserialize, Serialize};
use serde_json::{json, Value};
use std::collections::{BTreeMap, BTreeSet};

pub struct C04;

#[derive(Clone, Debug, Serialize, Deserialize)]
pub struct Case {
    pub g: GCase,
    /// 0 = no layout rule, 1 = left recursive layout, 2 = right recursive layout
    pub layout: u8,
}

/// Spec with the (optional) Layout rules appended as ordinary BNF rules.
pub fn full_spec(case: &Case) -> GrammarSpec {
    let mut s = case.g.spec.clone();
    if case.layout > 0 {
        let ws = s.terms.len();
        s.terms.push(TermSpec::regex("LWs", "\\s+", &[" "]));
        let com = s.terms.len();
        s.terms.push(TermSpec::regex("LCom", "//.*", &["// x"]));
        let l = s.rules.len();
        let li = l + 1;
        let alts = if case.layout == 1 {
            vec![AltSpec::of(vec![Sym::N(l), Sym::N(li)]), AltSpec::of(vec![])]
        } else {
            vec![AltSpec::of(vec![Sym::N(li), Sym::N(l)]), AltSpec::of(vec![Sym::N(li)])]
        };
        s.rules.push(RuleSpec { name: "Layout".into(), annotation: None, meta: Meta::default(), alts });
        s.rules.push(RuleSpec {
            name: "LI".into(),
            annotation: None,
            meta: Meta::default(),
            alts: vec![AltSpec::of(vec![Sym::T(ws)]), AltSpec::of(vec![Sym::T(com)])],
        });
    }
    s
}

struct Maps {
    term: Vec<usize>,         // dump terminal -> ref terminal (STOP -> stop)
    nt: Vec<Option<usize>>,   // dump nonterminal -> spec rule
    prod: Vec<Option<usize>>, // dump production -> ref production (None for the other AUG)
}

fn maps(d: &Dump, spec: &GrammarSpec, rg: &RefGrammar, aug_nt: usize) -> Result<Maps, String> {
    let mut term = vec![];
    for (i, t) in d.terminals.iter().enumerate() {
        if i == 0 {
            term.push(rg.stop);
        } else {
            term.push(
                spec.terms.iter().position(|x| x.name == t.name).ok_or(format!("terminal {} not in spec", t.name))?,
            );
        }
    }
    let nt: Vec<Option<usize>> =
        d.nonterminals.iter().map(|n| spec.rules.iter().position(|r| r.name == n.name)).collect();
    let mut prod = vec![];
    for p in &d.productions {
        if p.nonterminal == aug_nt {
            prod.push(Some(0));
        } else {
            match nt[p.nonterminal] {
                Some(r) => prod.push(rg.by_nt[r].get(p.ntidx).copied()),
                None => prod.push(None),
            }
        }
    }
    Ok(Maps { term, nt, prod })
}

type Fail = (String, String);

/// Complete comparison of one automaton (start state `t0` of the dump) against the canonical
/// LR(1) automaton. Returns the number of table states that merge >= 2 canonical states with
/// different lookaheads, and the number of table states visited.
fn compare(
    d: &Dump,
    m: &Maps,
    rg: &RefGrammar,
    can: &Canonical,
    t0: usize,
    tt: TT,
) -> Result<(usize, usize, usize), Fail> {
    let tname = tt.name();
    let mut rel: BTreeSet<(usize, usize)> = BTreeSet::new();
    let mut todo = vec![(0usize, t0)];
    rel.insert((0, t0));
    let table_core = |t: usize| -> Result<BTreeSet<(usize, usize)>, Fail> {
        let mut s = BTreeSet::new();
        for it in &d.states[t].items {
            match m.prod[it.prod] {
                Some(p) => {
                    if !s.insert((p, it.position)) {
                        return Err((format!("core-duplicate-item|{tname}"), format!("state {t}")));
                    }
                }
                None => return Err((format!("core-foreign-production|{tname}"), format!("state {t}"))),
            }
        }
        Ok(s)
    };
    while let Some((c, t)) = todo.pop() {
        let cs = &can.states[c];
        let core = table_core(t)?;
        if core != cs.core() {
            return Err((
                format!("core|{tname}"),
                format!("table state {t} items {:?} vs canonical core {:?}", core, cs.core()),
            ));
        }
        // transitions of the table state
        let mut ttrans: BTreeMap<Sym, usize> = BTreeMap::new();
        for (a, acts) in d.states[t].actions.iter().enumerate() {
            let shifts: Vec<usize> = acts
                .iter()
                .filter_map(|x| if let DAction::Shift(s) = x { Some(*s) } else { None })
                .collect();
            if shifts.len() > 1 {
                return Err((format!("two-shifts-in-cell|{tname}"), format!("state {t} terminal {a}")));
            }
            if let Some(s) = shifts.first() {
                if a == 0 {
                    return Err((format!("shift-on-stop|{tname}"), format!("state {t}")));
                }
                ttrans.insert(Sym::T(m.term[a]), *s);
            }
        }
        for (n, g) in d.states[t].gotos.iter().enumerate() {
            if let Some(s) = g {
                match m.nt[n] {
                    Some(r) => {
                        ttrans.insert(Sym::N(r), *s);
                    }
                    None => return Err((format!("goto-on-special-nonterminal|{tname}"), format!("state {t}"))),
                }
            }
        }
        let ckeys: BTreeSet<Sym> = cs.trans.keys().copied().collect();
        let tkeys: BTreeSet<Sym> = ttrans.keys().copied().collect();
        if ckeys != tkeys {
            let cls = if tkeys.is_subset(&ckeys) { "trans-missing" } else { "trans-extra" };
            return Err((
                format!("{cls}|{tname}"),
                format!("state {t}: table transitions on {:?}, canonical on {:?}", tkeys, ckeys),
            ));
        }
        for (sym, ct) in &cs.trans {
            let nt = ttrans[sym];
            if nt >= d.states.len() {
                return Err((format!("trans-out-of-range|{tname}"), format!("state {t}")));
            }
            if rel.insert((*ct, nt)) {
                todo.push((*ct, nt));
            }
        }
    }
    // lookaheads: union over related canonical states
    let mut per_t: BTreeMap<usize, Vec<usize>> = BTreeMap::new();
    for (c, t) in &rel {
        per_t.entry(*t).or_default().push(*c);
    }
    let mut merged_diff = 0;
    for (t, cs) in &per_t {
        let mut union: BTreeMap<(usize, usize), BTreeSet<usize>> = BTreeMap::new();
        let mut distinct_las: BTreeSet<Vec<((usize, usize), Vec<usize>)>> = BTreeSet::new();
        for c in cs {
            let las = can.states[*c].las();
            distinct_las.insert(las.iter().map(|(k, v)| (*k, v.iter().copied().collect())).collect());
            for (k, v) in las {
                union.entry(k).or_default().extend(v);
            }
        }
        if distinct_las.len() > 1 {
            merged_diff += 1;
        }
        let mut expected_cells: BTreeMap<usize, BTreeSet<String>> = BTreeMap::new();
        for it in &d.states[*t].items {
            let p = m.prod[it.prod].unwrap();
            let got: BTreeSet<usize> = it.follow.iter().map(|f| m.term[*f]).collect();
            let want = union.get(&(p, it.position)).cloned().unwrap_or_default();
            if got != want {
                let cls = if got.is_subset(&want) { "la-missing" } else { "la-extra" };
                return Err((
                    format!("{cls}|{tname}"),
                    format!(
                        "state {t} item (prod {} dot {}): table lookaheads {:?}, union of canonical {:?}",
                        it.prod, it.position, got, want
                    ),
                ));
            }
            let len = rg.prods[p].rhs.len();
            let reducing = it.position == len || (tt == TT::Rn && rg.suffix_nullable(p, it.position));
            if reducing {
                if p == 0 {
                    if it.position == len {
                        for a in &want {
                            if *a == rg.stop {
                                expected_cells.entry(*a).or_default().insert("A".into());
                            }
                        }
                    }
                } else {
                    for a in &want {
                        expected_cells.entry(*a).or_default().insert(format!("R{},{}", it.prod, it.position));
                    }
                }
            }
        }
        // actual cells
        for (a, acts) in d.states[*t].actions.iter().enumerate() {
            let ra = m.term[a];
            let mut got: Vec<String> = vec![];
            for x in acts {
                match x {
                    DAction::Shift(_) => {}
                    DAction::Reduce(p, l) => got.push(format!("R{p},{l}")),
                    DAction::Accept => got.push("A".into()),
                }
            }
            let gs: BTreeSet<String> = got.iter().cloned().collect();
            if gs.len() != got.len() {
                return Err((format!("cell-duplicate-action|{tname}"), format!("state {t} terminal {a}: {got:?}")));
            }
            let want = expected_cells.get(&ra).cloned().unwrap_or_default();
            if gs != want {
                let cls = if gs.is_subset(&want) { "reduce-missing" } else { "reduce-extra" };
                return Err((
                    format!("{cls}|{tname}"),
                    format!("state {t} terminal {}: table {:?} expected {:?}", d.terminals[a].name, gs, want),
                ));
            }
        }
    }
    Ok((merged_diff, per_t.len(), rel.len()))
}

impl Prop for C04 {
    type Case = Case;
    fn id(&self) -> &'static str {
        "C04"
    }
    fn strategy(&self, tier: Tier) -> BoxedStrategy<Case> {
        let nts = match tier {
            Tier::Quick => 5,
            Tier::Thorough => 8,
        };
        (
            gcase(gen::BnfParams { max_nts: nts, ambiguous_ok: true, ..gen::BnfParams::lr_small() }, 12..13, 20),
            prop_oneof![4 => Just(0u8), 1 => Just(1u8), 1 => Just(2u8)],
        )
            .prop_map(|(g, layout)| Case { g, layout })
            .boxed()
    }
    fn cases(&self, tier: Tier) -> u32 {
        match tier {
            Tier::Quick => 6000,
            Tier::Thorough => 150_000,
        }
    }
    fn rule(&self) -> String {
        "case = generated BNF grammar without meta-data (free-form / guarded / literature shapes incl. \
         LR(1)-not-LALR families), optionally with a Layout rule (second start state); for each of \
         LALR, LALR_PAGER, LALR_RN the real table is dumped with the GLR algorithm (cells \
         unresolved) and compared completely with a canonical LR(1) automaton built from scratch: \
         simulation relation from the start states (equal item cores as sets, identical transition \
         symbols, related targets), every table state related, per item lookaheads == union over \
         related canonical states, every cell == {Reduce(p,len) : item (p,len) present, a in union, \
         len=|rhs| or (RN and rest nullable)} + Accept only for the completed augmented item on \
         STOP. Consequences on the same grammar: reference LALR(1) conflict-free => LR-mode table has \
         no conflict for all three types; Settings::process_grammar in LR mode with nothing preferred \
         accepts the grammar exactly when the table of that type has no cell with competing actions \
         (all three types); raw table conflict-free => <=1 reference derivation tree \
         for 12 sampled sentences. non-trivial = (grammar, table type) with >= 1 table state that \
         merges canonical states with different lookaheads"
            .into()
    }
    fn assumptions(&self) -> Vec<String> {
        vec![
            "dump hook copies items / lookaheads / actions / gotos faithfully".into(),
            "canonical automaton capped at 4000 states (beyond: discard)".into(),
        ]
    }
    fn describe(&self, case: &Case) -> Value {
        json!({"grammar": full_spec(case).render()})
    }
    fn check(&self, case: &Case, st: &mut Stats) -> Outcome {
        let spec = full_spec(case);
        let bnf = spec.bnf();
        let text = spec.render();
        let rg = RefGrammar::new(&bnf, 0);
        let can = match Canonical::build(&rg) {
            Some(c) => c,
            None => {
                st.discard("canonical-state-cap");
                return Outcome::Pass;
            }
        };
        let layout_idx = spec.rules.iter().position(|r| r.name == "Layout");
        let lay = layout_idx.map(|li| {
            let rg2 = RefGrammar::new(&bnf, li);
            let can2 = Canonical::build(&rg2);
            (rg2, can2)
        });
        let lalr = Lalr::from_canonical(&can);
        let ref_lalr_conflicts = lalr.conflicts(&rg)
            + match &lay {
                Some((rg2, Some(c2))) => Lalr::from_canonical(c2).conflicts(rg2),
                _ => 0,
            };
        if ref_lalr_conflicts == 0 {
            st.class("reference-LALR1-conflict-free");
        } else if crate::oracle::lr1::canonical_conflicts(&can, &rg) == 0 {
            st.class("reference-LR1-but-not-LALR1");
        } else {
            st.class("reference-not-LR1");
        }
        let mut raw_conflict_free = false;
        let mut pager_states = 0;
        let mut lalr_states = 0;
        for tt in [TT::Lalr, TT::Pager, TT::Rn] {
            let d = match compile_or_discard(&text, &Cfg::raw(tt), st) {
                Ok(d) => d,
                Err(Some(e)) => {
                    st.discard(&format!("compiler-rejects:{}", crate::compile::norm_msg(&e).chars().take(40).collect::<String>()));
                    return Outcome::Pass;
                }
                Err(None) => return Outcome::Pass,
            };
            st.sub();
            let aug = d.nonterminals.iter().position(|n| n.name == "AUG").unwrap();
            let m = match maps(&d, &spec, &rg, aug) {
                Ok(m) => m,
                Err(e) => return Outcome::fail(format!("mapping|{}", tt.name()), format!("{e}\n{text}")),
            };
            let mut visited = 0;
            match compare(&d, &m, &rg, &can, 0, tt) {
                Ok((merged, nstates, _)) => {
                    visited += nstates;
                    if merged > 0 {
                        st.nontrivial(&format!("{text}\n{}", tt.name()), || {
                            json!({"grammar": text, "table": tt.name(), "table_states": d.states.len(),
                                   "canonical_states": can.states.len(),
                                   "states_merging_different_lookaheads": merged})
                        });
                    }
                }
                Err((sig, msg)) => return Outcome::fail(sig, format!("grammar:\n{text}\n{msg}")),
            }
            if let (Some(ls), Some((rg2, Some(can2)))) = (d.layout_state, &lay) {
                let augl = d.nonterminals.iter().position(|n| n.name == "AUGL").unwrap();
                let m2 = match maps(&d, &spec, rg2, augl) {
                    Ok(m) => m,
                    Err(e) => return Outcome::fail(format!("mapping|{}", tt.name()), format!("{e}\n{text}")),
                };
                match compare(&d, &m2, rg2, can2, ls, tt) {
                    Ok((_, nstates, _)) => visited += nstates,
                    Err((sig, msg)) => {
                        return Outcome::fail(format!("layout-automaton|{sig}"), format!("grammar:\n{text}\n{msg}"))
                    }
                }
                st.class("with-layout-automaton");
            } else if d.layout_state.is_some() != layout_idx.is_some() {
                return Outcome::fail(format!("layout-state-presence|{}", tt.name()), text.clone());
            }
            if visited != d.states.len() {
                return Outcome::fail(
                    format!("unrelated-table-states|{}", tt.name()),
                    format!("grammar:\n{text}\n{} of {} table states are related to a canonical state", visited, d.states.len()),
                );
            }
            match tt {
                TT::Lalr => lalr_states = d.states.len(),
                TT::Pager => {
                    pager_states = d.states.len();
                    raw_conflict_free = !has_conflicts(&d);
                }
                _ => {}
            }
            // consequence 1: an LALR(1) grammar compiles without conflicts under every table type
            if ref_lalr_conflicts == 0 {
                match compile_or_discard(&text, &Cfg::lr().with_table(tt), st) {
                    Ok(ld) => {
                        if has_conflicts(&ld) {
                            return Outcome::fail(
                                format!("lalr1-grammar-has-conflicts|{}", tt.name()),
                                format!("grammar:\n{text}\nreference LALR(1) automaton is conflict free"),
                            );
                        }
                    }
                    Err(Some(e)) => {
                        return Outcome::fail(
                            format!("lalr1-grammar-rejected|{}", tt.name()),
                            format!("grammar:\n{text}\n{e}"),
                        )
                    }
                    Err(None) => {}
                }
            }
            // the user-facing entry point in LR mode, nothing preferred: the grammar "compiles"
            // exactly when the table of this type has no cell with competing actions
            {
                let lcfg = Cfg { table: Some(tt), prefer_shifts: Some(false), pse: Some(false), ..Cfg::lr() };
                if let Ok(ld) = compile_or_discard(&text, &lcfg, st) {
                    let dir = super::c16::thread_dir("c04");
                    let gpath = dir.join("g.rustemo");
                    let _ = std::fs::remove_file(dir.join("g.rs"));
                    if std::fs::write(&gpath, &text).is_ok() {
                        let settings = lcfg.settings().builder_type(rustemo_compiler::BuilderType::Generic).force(true);
                        st.sub();
                        match crate::compile::guarded(|| settings.process_grammar(&gpath)) {
                            Err(_) => st.discard("compiler-panic(C16)"),
                            Ok(Ok(())) => {
                                if has_conflicts(&ld) {
                                    return Outcome::fail(
                                        format!("lr-mode-compiles-with-conflicts|{}", tt.name()),
                                        format!("grammar:\n{text}\nLR, table type {}, prefer_shifts=false, prefer_shifts_over_empty=false: {} cell(s) keep competing actions, yet process_grammar generated a parser", tt.name(), crate::compile::conflict_cells(&ld)),
                                    );
                                }
                                st.class("lr-entry-point-accepts");
                            }
                            Ok(Err(e)) => {
                                let m = format!("{e}");
                                if m.contains("not deterministic") {
                                    if !has_conflicts(&ld) {
                                        return Outcome::fail(
                                            format!("lr-mode-rejects-conflict-free-table|{}", tt.name()),
                                            format!("grammar:\n{text}\ntable type {}: no cell keeps competing actions, yet: {m}", tt.name()),
                                        );
                                    }
                                    st.class("lr-entry-point-reports-conflicts");
                                } else {
                                    st.class("lr-entry-point-other-error");
                                }
                            }
                        }
                    }
                }
            }
        }
        if pager_states > lalr_states {
            st.class("pager-kept-a-split");
        }
        // consequence 2: compiles without any disambiguation => unambiguous
        if raw_conflict_free && layout_idx.is_none() {
            st.class("raw-pager-conflict-free");
            let sbnf = case.g.spec.bnf();
            for (ii, tape) in case.g.tapes.iter().enumerate() {
                let mut t2 = tape.clone();
                t2.kind = 0; // sentences only
                let toks = gen::tokens_for(&sbnf, &t2, 9);
                let mut c = Cursor::new(&tape.tape);
                let r = gen::render_tokens(&case.g.spec.terms, &toks, LayoutStyle::Minimal, &mut c);
                if let Ok(lex) = CharLex::new(&r.text, &case.g.spec.terms, true) {
                    let mut te = TreeEnum::new(&sbnf, &lex);
                    let n = te.total();
                    if te.cyclic_hit || te.work > crate::oracle::trees::WORK_CAP {
                        continue;
                    }
                    if n > 1 {
                        return Outcome::fail(
                            "ambiguous-but-conflict-free|LALR_PAGER",
                            format!("grammar:\n{text}\nsentence {:?} has {n} derivation trees (input #{ii})", r.text),
                        );
                    }
                }
            }
        }
        Outcome::Pass
    }
}
