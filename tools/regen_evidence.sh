#!/bin/bash
# tools/regen_evidence.sh : run every quick check once on the current tree (VERIF_SEED=1) so that all
# evidence files are fresh, then validate them and the manifest against the schemas.
cd /verif
rm -f replays/*.json
for p in C01 C02 C03 C04 C05 C06 C07 C08 C09 C10 C11 C12 C13 C14 C15 C16 C17 C18; do
  O=$(VERIF_SEED=1 ./check $p quick 2>&1 | grep -v "^KNOWN-FINDING" | head -2)
  echo "$p: ${O:-ok}"
done
python3-vt - <<'PY'
import json, jsonschema, glob
s=json.load(open('/root/.vp/EVIDENCE.schema.json'))
for f in sorted(glob.glob('/verif/evidence/C*.json')):
    e=json.load(open(f)); jsonschema.validate(e,s)
    c=e['coverage']; print(f.split('/')[-1], e['tier'], c.get('evaluations'), c.get('distinct_nontrivial'), e['wall_s'], 'violations', e.get('violations'))
m=json.load(open('/verif/MANIFEST.json')); jsonschema.validate(m,json.load(open('/root/.vp/MANIFEST.schema.json'))); print('manifest ok')
PY
