//! C06 — lexical ambiguity is resolved in the documented order of strategies.
//! Model-based: reference interpreters (oracle::lexmodel) over the real table.

use super::common::*;
use crate::compile::{guarded, has_conflicts, Algo, Cfg, TT};
use crate::dynp::{self, Node, RunOpts};
use crate::gen::{self, pick, Cursor, LayoutStyle, Pool};
use crate::oracle::lexmodel::{LexFlags, LexModel, MTok};
use crate::runner::{Outcome, Prop, Stats, Tier};
use crate::spec::*;
use proptest::prelude::*;
use serde::{Deserialize, Serialize};
use serde_json::{json, Value};
use std::collections::BTreeSet;

pub struct C06;

#[derive(Clone, Debug, Serialize, Deserialize)]
pub struct Case {
    pub g: GCase,
    /// 0 = grammar as generated, 1 = `S: S X | X; X: t1 | .. | tn`, 2 = `S: X S | X`,
    /// 3 = shape 1 over the wide pool (24 terminals expected in one state)
    pub shape: u8,
    pub prios: Vec<u16>,
    pub raw_inputs: Vec<String>,
    pub glr: bool,
    pub most_specific: bool,
    pub longest: bool,
    pub order: bool,
}

pub fn spec_of(c: &Case) -> GrammarSpec {
    let mut s = c.g.spec.clone();
    if c.shape == 3 {
        // wide family: one state expects all 24 terminals
        s.terms = gen::twide_pool();
    }
    if c.shape > 0 {
        let n = s.terms.len();
        let x_alts: Vec<AltSpec> = (0..n).map(|t| AltSpec::of(vec![Sym::T(t)])).collect();
        let s_alts = if c.shape != 2 {
            vec![AltSpec::of(vec![Sym::N(0), Sym::N(1)]), AltSpec::of(vec![Sym::N(1)])]
        } else {
            vec![AltSpec::of(vec![Sym::N(1), Sym::N(0)]), AltSpec::of(vec![Sym::N(1)])]
        };
        s.rules = vec![
            RuleSpec { name: "S".into(), annotation: None, meta: Meta::default(), alts: s_alts },
            RuleSpec { name: "X".into(), annotation: None, meta: Meta::default(), alts: x_alts },
        ];
    }
    for (i, t) in s.terms.iter_mut().enumerate() {
        let v = c.prios.get(i).copied().unwrap_or(0);
        t.prio = match pick(v, 4) {
            0 | 1 => None,
            2 => Some(5),
            _ => Some(15),
        };
    }
    s
}

fn inputs_of(c: &Case, spec: &GrammarSpec) -> Vec<String> {
    let bnf = spec.bnf();
    let mut v: Vec<String> = c
        .g
        .tapes
        .iter()
        .enumerate()
        .map(|(ii, tape)| {
            let toks = gen::tokens_for(&bnf, tape, 8);
            let mut cur = Cursor::new(&tape.tape);
            gen::render_tokens_sep(&spec.terms, &toks, LayoutStyle::Minimal, &mut cur, ii % 2 == 0).text
        })
        .collect();
    v.extend(c.raw_inputs.iter().cloned());
    v
}

fn leaves_of(d: &rustemo_compiler::verif::Dump, t: &Node) -> Vec<(String, String, usize)> {
    let mut l = vec![];
    t.leaves(&mut l);
    l.iter()
        .map(|n| match n {
            Node::Term { kind, text, span, .. } => (d.terminals[*kind].name.clone(), text.clone(), span.start.pos),
            _ => unreachable!(),
        })
        .collect()
}

fn mtoks(d: &rustemo_compiler::verif::Dump, inp: &str, v: &[MTok]) -> Vec<(String, String, usize)> {
    v.iter().map(|m| (d.terminals[m.term].name.clone(), inp[m.start..m.start + m.len].to_string(), m.start)).collect()
}

impl Prop for C06 {
    type Case = Case;
    fn id(&self) -> &'static str {
        "C06"
    }
    fn strategy(&self, tier: Tier) -> BoxedStrategy<Case> {
        let (inputs, raws) = match tier {
            Tier::Quick => (6..12, 8..14),
            Tier::Thorough => (12..20, 16..24),
        };
        (
            gcase(
                gen::BnfParams {
                    max_nts: 3,
                    max_alts: 3,
                    max_syms: 3,
                    max_terms: 5,
                    pool: Pool::Overlap,
                    templates: false,
                    ambiguous_ok: false,
                    ..gen::BnfParams::lr_small()
                },
                inputs,
                16,
            ),
            prop_oneof![2 => Just(0u8), 4 => Just(1u8), 2 => Just(2u8), 1 => Just(3u8)],
            proptest::collection::vec(any::<u16>(), 6),
            proptest::collection::vec("[abc ]{0,12}", raws),
            any::<bool>(),
            any::<bool>(),
            any::<bool>(),
            any::<bool>(),
        )
            .prop_map(|(g, shape, prios, raw_inputs, glr, most_specific, longest, order)| Case {
                g,
                shape,
                prios,
                raw_inputs,
                glr,
                most_specific,
                longest,
                order,
            })
            .boxed()
    }
    fn cases(&self, tier: Tier) -> u32 {
        match tier {
            Tier::Quick => 8000,
            Tier::Thorough => 160_000,
        }
    }
    fn rule(&self) -> String {
        "case = overlapping string/regex terminals over {a,b,c} (2..5 of 13, random priorities \
         5/10/15) under a small grammar (`S: X+`-style in both recursion directions, or a random \
         context-restricted grammar) whose raw LALR_PAGER table is conflict-free, x \
         most_specific x longest_match (x grammar_order for GLR) x {LR,GLR}; inputs = rendered \
         sentences (with and without separators) and random strings over {a,b,c,space}. Oracle = \
         reference interpreter over the real table: expected = terminals with a non-empty cell in \
         the current state, matches by reference recognisers, then priority -> most specific \
         (longest string recogniser over any regex) -> longest match -> grammar order. LR: Ok iff \
         the model accepts and the leaves (kind, text, offset) equal the model's shifted tokens. \
         GLR: the multiset of leaf sequences of all forest trees equals the set of token sequences \
         accepted by the branching model and solutions() equals their number. non-trivial = (case, \
         input) where >= 2 expected terminals matched at some position and a strategy discriminated \
         or several were kept"
            .into()
    }
    fn assumptions(&self) -> Vec<String> {
        vec![
            "no regex matches the empty string; duplicate string recognisers are not generated".into(),
            "the LR model re-lexes after every reduction and the GLR model keeps the lookahead across reductions (what an LR(1) / GLR parser with context-aware lexing does)".into(),
        ]
    }
    fn describe(&self, case: &Case) -> Value {
        let spec = spec_of(case);
        json!({"grammar": spec.render(), "algo": if case.glr {"GLR"} else {"LR"},
               "most_specific": case.most_specific, "longest_match": case.longest,
               "grammar_order": if case.glr { case.order } else { true },
               "inputs": inputs_of(case, &spec)})
    }
    fn check(&self, case: &Case, st: &mut Stats) -> Outcome {
        let spec = spec_of(case);
        let text = spec.render();
        let raw = match compile_or_discard(&text, &Cfg::raw(TT::Pager), st) {
            Ok(d) => d,
            Err(Some(_)) => {
                st.discard("compiler-rejects-grammar");
                return Outcome::Pass;
            }
            Err(None) => return Outcome::Pass,
        };
        if has_conflicts(&raw) {
            st.discard("out-of-scope-syntactic-conflicts");
            return Outcome::Pass;
        }
        let order = if case.glr { case.order } else { true };
        let cfg = Cfg {
            algo: if case.glr { Algo::GLR } else { Algo::LR },
            table: None,
            prefer_shifts: None,
            pse: None,
            most_specific: Some(case.most_specific),
            longest: Some(case.longest),
            order: if case.glr { Some(case.order) } else { None },
        };
        let d = match compile_or_discard(&text, &cfg, st) {
            Ok(d) => d,
            Err(_) => {
                st.discard("compile-failed");
                return Outcome::Pass;
            }
        };
        if !case.glr && has_conflicts(&d) {
            st.discard("lr-conflicts");
            return Outcome::Pass;
        }
        if install(&d, &cfg).is_err() {
            return Outcome::Pass;
        }
        let flags = LexFlags { most_specific: case.most_specific, longest: case.longest, order };
        let flagstr = format!(
            "{}|ms={}|lm={}|go={}",
            if case.glr { "GLR" } else { "LR" },
            case.most_specific as u8,
            case.longest as u8,
            order as u8
        );
        st.class(&format!("config-{flagstr}"));
        for inp in inputs_of(case, &spec) {
            let mut model = match LexModel::new(&d, &spec.terms, &inp, flags) {
                Ok(m) => m,
                Err(e) => {
                    st.discard(&format!("model:{e}"));
                    return Outcome::Pass;
                }
            };
            st.sub();
            let ctx = |extra: String| format!("grammar:\n{text}\nconfig: {flagstr}\ninput: {inp:?}\n{extra}");
            if !case.glr {
                let want = model.run_lr(2000);
                if matches!(&want, Err(e) if e == "step cap") {
                    st.discard("model-step-cap");
                    continue;
                }
                dynp::reset_steps(LR_STEPS);
                let real = match guarded(|| dynp::lr_parse(&inp, RunOpts::default())) {
                    Ok(r) => r,
                    Err(p) => return panic_outcome("parse|LR", &p),
                };
                let decided: BTreeSet<&str> = model.decided.iter().copied().collect();
                let dec = decided.iter().copied().collect::<Vec<_>>().join("+");
                match (&real, &want) {
                    (Ok(t), Ok(w)) => {
                        let got = leaves_of(&d, t);
                        let exp = mtoks(&d, &inp, w);
                        if got != exp {
                            return Outcome::fail(
                                format!("tokens|{flagstr}|{dec}"),
                                ctx(format!("real tokens : {got:?}\nmodel tokens: {exp:?}")),
                            );
                        }
                    }
                    (Err(_), Err(_)) => {}
                    (Ok(t), Err(e)) => {
                        return Outcome::fail(
                            format!("accept|real=Ok|model=Err|{flagstr}|{dec}"),
                            ctx(format!("real tokens: {:?}\nmodel: {e}", leaves_of(&d, t))),
                        )
                    }
                    (Err(e), Ok(w)) => {
                        return Outcome::fail(
                            format!("accept|real=Err|model=Ok|{flagstr}|{dec}"),
                            ctx(format!("real error: {}\nmodel tokens: {:?}", e.message, mtoks(&d, &inp, w))),
                        )
                    }
                }
                for s in &decided {
                    st.class(&format!("decided-by-{s}"));
                }
                if !decided.is_empty() {
                    st.nontrivial(&format!("{text}\n{flagstr}\n{inp}"), || {
                        json!({"grammar": text, "config": flagstr, "input": inp, "decided_by": dec,
                               "accepted": real.is_ok()})
                    });
                }
            } else {
                let want = match model.run_glr(20_000) {
                    Some(w) => w,
                    None => {
                        st.discard("model-budget");
                        continue;
                    }
                };
                if want.len() > 200 {
                    st.discard("too-many-tokenisations");
                    continue;
                }
                dynp::reset_steps(GLR_STEPS);
                let real = match guarded(|| dynp::glr_parse(&inp, RunOpts::default(), 300, false)) {
                    Ok(r) => r,
                    Err(p) => return panic_outcome("parse|GLR", &p),
                };
                let decided: BTreeSet<&str> = model.decided.iter().copied().collect();
                let dec = decided.iter().copied().collect::<Vec<_>>().join("+");
                let exp: Vec<Vec<(String, String, usize)>> = want.iter().map(|w| mtoks(&d, &inp, w)).collect();
                match &real {
                    Err(e) => {
                        if !exp.is_empty() {
                            return Outcome::fail(
                                format!("accept|real=Err|model=Ok|{flagstr}|{dec}"),
                                ctx(format!("real error: {}\nmodel tokenisations: {exp:?}", e.message)),
                            );
                        }
                    }
                    Ok(o) => {
                        let mut got: Vec<Vec<(String, String, usize)>> = o.trees.iter().map(|t| leaves_of(&d, t)).collect();
                        got.sort();
                        let mut e2 = exp.clone();
                        e2.sort();
                        if o.solutions != exp.len() || got != e2 {
                            let cls = if exp.is_empty() {
                                "accept|real=Ok|model=Err"
                            } else if o.solutions > exp.len() {
                                "tokenisations|real>model"
                            } else if o.solutions < exp.len() {
                                "tokenisations|real<model"
                            } else {
                                "tokenisations|differ"
                            };
                            return Outcome::fail(
                                format!("{cls}|{flagstr}|{dec}"),
                                ctx(format!("real solutions {}: {got:?}\nmodel {}: {e2:?}", o.solutions, exp.len())),
                            );
                        }
                    }
                }
                for s in &decided {
                    st.class(&format!("decided-by-{s}"));
                }
                if !decided.is_empty() {
                    st.nontrivial(&format!("{text}\n{flagstr}\n{inp}"), || {
                        json!({"grammar": text, "config": flagstr, "input": inp, "decided_by": dec,
                               "tokenisations": exp.len()})
                    });
                }
            }
        }
        dynp::uninstall();
        Outcome::Pass
    }
}
