//! C12 — syntax errors point at the first offending token; sentences never error.
//! Oracle: Earley valid-prefix property on the spec's BNF.

use super::common::*;
use crate::compile::{guarded, has_conflicts, Cfg, TT};
use crate::dynp::{self, PErr, RunOpts};
use crate::gen::{self, Cursor, LayoutStyle};
use crate::oracle::earley::Earley;
use crate::runner::{Outcome, Prop, Stats, Tier};
use crate::spec::Bnf;
use proptest::prelude::*;
use serde_json::{json, Value};

pub struct C12;

const FOREIGN: &[&str] = &["#", "@", "\u{1}", "§", "€", "\u{7f}"];

pub struct Inp {
    pub text: String,
    pub toks: Vec<usize>,
    /// expected error offset, None = sentence
    pub expect_err: Option<usize>,
    pub class: &'static str,
}

pub fn build_input(case: &GCase, bnf: &Bnf, earley: &Earley, ii: usize) -> Inp {
    let tape = &case.tapes[ii];
    let toks = gen::tokens_for(bnf, tape, 10);
    let mut c = Cursor::new(&tape.tape);
    let style = match ii % 3 {
        _ if case.lines && ii % 2 == 1 => LayoutStyle::Lines,
        0 => LayoutStyle::Unicode,
        1 => LayoutStyle::Ascii,
        _ => LayoutStyle::Minimal,
    };
    let r = if case.layout_mode > 0 {
        gen::render_with_layout(&case.spec.terms, &toks, layout_kind_of(case.layout_mode), ii % 3 == 2, &mut c)
    } else {
        gen::render_tokens(&case.spec.terms, &toks, style, &mut c)
    };
    let run = earley.run(&toks);
    // every 4th input gets a foreign character spliced in at a token boundary
    let foreign = if ii % 4 == 3 {
        let at = c.pick(toks.len() + 1);
        let ch = FOREIGN[c.pick(FOREIGN.len())];
        // with the two-token layout item the foreign text is half an item (`~` without `^`): the
        // layout parser shifts it and then fails; the error still belongs at its start
        if case.layout_mode >= 5 {
            // only where no layout precedes: an LR layout parser cannot fall back to the valid
            // layout prefix in front of a broken item, so the expected offset is defined there only
            if r.layouts.get(at).map(|l| l.is_empty()).unwrap_or(false) {
                Some((at, "~"))
            } else {
                None
            }
        } else {
            Some((at, ch))
        }
    } else {
        None
    };
    match foreign {
        None => {
            let expect_err = if run.accepted {
                None
            } else {
                Some(match run.dead {
                    Some(k) => r.spans[k].0,
                    None => r.text.len(),
                })
            };
            let class = if run.accepted {
                "sentence"
            } else if run.dead.is_some() {
                "dead-token"
            } else {
                "proper-prefix"
            };
            Inp { text: r.text, toks, expect_err, class }
        }
        Some((k, ch)) => {
            let at = if k < toks.len() { r.spans[k].0 } else { r.text.len() };
            let mut text = r.text.clone();
            text.insert_str(at, ch);
            let expect = match run.dead {
                Some(d) if d < k => r.spans[d].0,
                _ => at,
            };
            Inp { text, toks, expect_err: Some(expect), class: "foreign-char" }
        }
    }
}

fn check_err(inp: &Inp, e: &PErr, nterms: usize) -> Result<(), (String, String)> {
    let want = inp.expect_err.unwrap();
    if !e.is_parse_error {
        return Err(("not-a-parse-error".into(), e.message.clone()));
    }
    let span = match e.span {
        Some(s) => s,
        None => return Err(("no-span".into(), e.message.clone())),
    };
    if span.start.pos != want {
        let rel = if span.start.pos < want { "early" } else { "late" };
        return Err((
            format!("position|{}|{rel}", inp.class),
            format!("reported offset {} expected {}", span.start.pos, want),
        ));
    }
    check_pos(&inp.text, &span.start, "error position").map_err(|(c, m)| (format!("error-{c}"), m))?;
    // message: "Expected X." / "Expected one of X, Y."; terminals are rendered by the harness's
    // token kind type as TK(n)
    if !e.message.starts_with("Expected ") {
        return Err(("message-format".into(), e.message.clone()));
    }
    let mut n = 0;
    let mut rest = e.message.as_str();
    while let Some(i) = rest.find("TK(") {
        let tail = &rest[i + 3..];
        let j = tail.find(')').unwrap_or(0);
        match tail[..j].parse::<usize>() {
            Ok(k) if k < nterms => n += 1,
            _ => return Err(("expected-unknown-terminal".into(), e.message.clone())),
        }
        rest = &tail[j..];
    }
    if n == 0 {
        return Err(("expected-empty".into(), e.message.clone()));
    }
    Ok(())
}

/// Judge one parse result against the expectation of its input (fresh or reused parser).
#[allow(clippy::too_many_arguments)]
fn judge(st: &mut Stats, text: &str, spec: &crate::spec::GrammarSpec, algo: &str, nterms: usize, inp: &Inp, res: &Result<(), PErr>, reused: bool) -> Option<Outcome> {
    let how = if reused { "reused-parser|" } else { "" };
    let ctx = || {
        format!(
            "grammar:\n{text}\ninput: {:?}\ntokens: {:?}\nclass: {}{}",
            inp.text,
            inp.toks.iter().map(|t| spec.terms[*t].name.clone()).collect::<Vec<_>>(),
            inp.class,
            if reused { "\n(parser instance reused: all inputs of the case parsed in order by one instance)" } else { "" }
        )
    };
    if !reused {
        st.class(&format!("input-{}", inp.class));
    }
    match (res, inp.expect_err) {
        (Ok(()), None) => {}
        (Ok(()), Some(off)) => {
            return Some(Outcome::fail(
                format!("{how}accepted-non-sentence|{algo}|{}", inp.class),
                format!("{}\nexpected an error at offset {off}", ctx()),
            ))
        }
        (Err(e), None) => {
            return Some(Outcome::fail(
                format!("{how}sentence-rejected|{algo}"),
                format!("{}\nerror: {:?} {}", ctx(), e.span, e.message),
            ))
        }
        (Err(e), Some(off)) => {
            if let Err((cls, msg)) = check_err(inp, e, nterms) {
                return Some(Outcome::fail(
                    format!("{how}{cls}|{algo}"),
                    format!("{}\n{msg}\nerror: {:?} {}", ctx(), e.span, e.message),
                ));
            }
            if !reused && off > 0 && inp.toks.len() >= 2 {
                st.nontrivial(&format!("{text}\n{algo}\n{}", inp.text), || {
                    json!({"grammar": text, "algo": algo, "input": inp.text, "class": inp.class,
                           "error_offset": off, "message": e.message})
                });
            }
        }
    }
    None
}

impl Prop for C12 {
    type Case = GCase;
    fn id(&self) -> &'static str {
        "C12"
    }
    fn strategy(&self, tier: Tier) -> BoxedStrategy<GCase> {
        let (nts, inputs) = match tier {
            Tier::Quick => (5, 16..26),
            Tier::Thorough => (7, 28..40),
        };
        let a = prop_oneof![
            2 => gcase(gen::BnfParams { max_nts: nts, ..gen::BnfParams::lr_small() }, inputs.clone(), 24),
            1 => gcase(gen::BnfParams { max_nts: nts, pool: gen::Pool::Unicode(false), ..gen::BnfParams::lr_small() }, inputs.clone(), 24),
        ];
        let b = gcase(gen::BnfParams { max_nts: nts.min(5), ..gen::BnfParams::glr_small() }, inputs, 24);
        prop_oneof![a, b].boxed()
    }
    fn cases(&self, tier: Tier) -> u32 {
        match tier {
            Tier::Quick => 5000,
            Tier::Thorough => 100_000,
        }
    }
    fn rule(&self) -> String {
        "case = generated BNF grammar (every nonterminal productive by construction) + input tapes: \
         sentences, token-level mutations, truncations, random token strings, every 4th input with \
         a foreign character spliced in at a token boundary; rendered with ASCII / multi-byte \
         whitespace and newlines. LR part when the raw LALR_PAGER table is conflict-free (C01 \
         scope), GLR part when the grammar is acyclic with <= 1 empty derivation per nonterminal \
         (C03 scope). oracle: Earley valid-prefix property gives the first token that cannot \
         continue any sentence; expected error offset = start of that token (after its layout), or \
         the offset after trailing layout for a proper prefix of a sentence, or the foreign \
         character if that comes first; line/column must be consistent with the offset; the message \
         must list >= 1 valid terminal after 'Expected'; a sentence must give Ok. non-trivial = \
         (grammar, algorithm, input) rejected at an offset > 0 with >= 2 tokens"
            .into()
    }
    fn assumptions(&self) -> Vec<String> {
        vec![
            "default whitespace skipping; prefix-free terminals (unique tokenisation)".into(),
            "LALR tables delay error detection only by reductions (viable-prefix property), which is what the property asserts".into(),
        ]
    }
    fn describe(&self, case: &GCase) -> Value {
        let bnf = case.spec.bnf();
        let e = Earley::new(&bnf);
        let inputs: Vec<Value> = (0..case.tapes.len())
            .map(|i| {
                let x = build_input(case, &bnf, &e, i);
                json!({"text": x.text, "expected_error_offset": x.expect_err, "class": x.class})
            })
            .collect();
        json!({"grammar": case.spec.render(), "inputs": inputs})
    }
    fn check(&self, case: &GCase, st: &mut Stats) -> Outcome {
        let mut spec_l = case.spec.clone();
        spec_l.layout = layout_kind_of(case.layout_mode);
        let spec = &spec_l;
        st.class(&format!("layout-mode-{}", case.layout_mode));
        let bnf = spec.bnf();
        if bnf.productive().iter().any(|p| !*p) {
            st.exclude("unproductive-nonterminal");
            return Outcome::Pass;
        }
        let text = spec.render();
        let earley = Earley::new(&bnf);
        // LR scope
        let lr_cfg = Cfg::lr();
        let lr = match compile_or_discard(&text, &Cfg::raw(TT::Pager), st) {
            Ok(raw) if !has_conflicts(&raw) => match compile_or_discard(&text, &lr_cfg, st) {
                Ok(d) => Some(d),
                Err(_) => None,
            },
            _ => None,
        };
        // GLR scope
        let glr_cfg = Cfg::glr();
        let reach = bnf.reachable();
        let eps = bnf.eps_derivations();
        let glr_scope = !bnf.is_cyclic() && !eps.iter().zip(reach.iter()).any(|(e, r)| *r && *e > 1);
        let glr = if glr_scope {
            match compile_or_discard(&text, &glr_cfg, st) {
                Ok(d) => Some(d),
                Err(_) => None,
            }
        } else {
            None
        };
        if lr.is_none() && glr.is_none() {
            st.discard("out-of-scope-for-both");
            return Outcome::Pass;
        }
        let inputs: Vec<Inp> = (0..case.tapes.len()).map(|i| build_input(case, &bnf, &earley, i)).collect();
        for (algo, d, cfg) in [("LR", &lr, &lr_cfg), ("GLR", &glr, &glr_cfg)] {
            let d = match d {
                Some(d) => d,
                None => continue,
            };
            if install(d, cfg).is_err() {
                continue;
            }
            st.class(&format!("grammar-{algo}"));
            let nterms = d.terminals.len();
            for inp in &inputs {
                st.sub();
                dynp::reset_steps(if algo == "LR" { LR_STEPS } else { GLR_STEPS });
                let res: Result<(), PErr> = if algo == "LR" {
                    match guarded(|| dynp::lr_parse(&inp.text, RunOpts::default())) {
                        Ok(r) => r.map(|_| ()),
                        Err(p) => return panic_outcome("parse|LR", &p),
                    }
                } else {
                    match guarded(|| dynp::glr_parse_forest(&inp.text, RunOpts::default()).map(|_| ())) {
                        Ok(r) => r,
                        Err(p) => return panic_outcome("parse|GLR", &p),
                    }
                };
                if let Some(o) = judge(st, &text, spec, algo, nterms, inp, &res, false) {
                    return o;
                }
            }
            // the same inputs once more through ONE parser instance (valid and invalid
            // interleaved): every result is judged exactly like that of a fresh parser
            {
                let texts: Vec<&str> = inputs.iter().map(|i| i.text.as_str()).collect();
                let results: Vec<Result<Result<(), PErr>, crate::compile::PanicInfo>> = if algo == "LR" {
                    dynp::lr_parse_session(&texts, RunOpts::default(), LR_STEPS).into_iter().map(|r| r.map(|x| x.map(|_| ()))).collect()
                } else {
                    dynp::glr_parse_session(&texts, RunOpts::default(), GLR_STEPS, false).into_iter().map(|r| r.map(|x| x.map(|_| ()))).collect()
                };
                for (k, r) in results.iter().enumerate() {
                    st.sub();
                    match r {
                        Err(p) => return panic_outcome(&format!("reused-parser|parse|{algo}"), p),
                        Ok(res) => {
                            if let Some(o) = judge(st, &text, spec, algo, nterms, &inputs[k], res, true) {
                                return o;
                            }
                        }
                    }
                }
            }
            dynp::uninstall();
        }
        Outcome::Pass
    }
}
