#!/usr/bin/env python3
"""Regenerates /verif/MANIFEST.json from the table below (single source of truth)."""
import json, subprocess, os
ROOT = os.path.dirname(os.path.abspath(__file__))

CHECKS = {
 "C01": dict(engine="A", technique="property-based differential testing: real LR parser vs independent Earley recogniser on generated grammars and inputs (proptest, shrinking)",
   text="Bounded random exploration: thousands of generated BNF grammars (nullable, left/right/hidden recursion, literature shapes incl. LR(1)-not-LALR) x dozens of generated inputs each, for LALR and LALR_PAGER; every Ok/Err of the real runtime driven by the real table is compared with an Earley recogniser that shares no code with rustemo. Gives evidence, not proof, for grammars <= 8 nonterminals and inputs <= 12 tokens.",
   note="Trusted: the harness's Earley recogniser and sentence generator; the dump hook copies table data faithfully; dump-driven recognisers mirror generated ones (C08 covers generated code)."),
 "C02": dict(engine="A", technique="property-based testing with a validity predicate on every returned tree + metamorphic relation (partial parse off => on) over generated grammars with disambiguation meta-data (proptest, shrinking)",
   text="Bounded random exploration: generated conflicting grammars resolved by random priorities/associativity/nops/nopse/prefer-shift settings; every tree the real LR parser returns (partial parsing off and on) is checked to be a derivation of the consumed input against the harness's own spec of the grammar (root, every production, exact child counts, leaves = the input's tokens with spans), and enabling partial parsing must not change an accepted parse.",
   note="Trusted: generator's token list is the unique tokenisation (prefix-free terminals); the spec rendered to text is the grammar (C09 checks the reading of the text)."),
 "C03": dict(engine="A", technique="property-based testing with an exhaustive reference oracle: GLR forest vs independent derivation-tree enumerator (proptest, shrinking)",
   text="Bounded random exploration of ambiguous / non-LR / nullable / hidden-recursive / lexically ambiguous grammars; for each input the complete set of derivation trees is enumerated by an independent memoised enumerator and compared as a multiset with every tree of the real forest (by index and by all three iteration routes), including counts and out-of-range indexes.",
   note="Trusted: reference enumerator and its scope decision (acyclic, <=1 empty derivation per nonterminal); regex crate for reference recognisers; <=300 trees, <=9 tokens."),
 "C04": dict(engine="A", technique="property-based testing with a complete per-grammar comparison: real LR table vs independently constructed canonical LR(1) automaton (simulation relation, lookahead unions, every action cell)",
   text="Bounded random exploration over grammars; for each generated grammar and each of LALR / LALR_PAGER / LALR_RN the real table (all items, lookaheads, transitions, action cells, incl. the Layout start state) is compared completely with a canonical LR(1) automaton built from scratch by the harness; plus the two stated consequences (LALR(1) grammar => no conflicts in LR mode under every table type; conflict-free raw table => unambiguous on sampled sentences).",
   note="Trusted: the harness's LR(1) construction (own FIRST/closure/goto); dump hook; canonical automaton <= 4000 states."),
 "C05": dict(engine="A", technique="model-based property testing of every conflicting table cell against the documented decision function + differential testing against a precedence-climbing parser (proptest, shrinking)",
   text="Bounded random exploration: conflict-rich generated grammars with random priorities/associativity (productions, rules, terminals)/nops/nopse x {LR,GLR} x prefer_shifts x prefer_shifts_over_empty x {LALR,LALR_PAGER}; every cell of the resolved real table is compared with the raw real table through a declarative model of the documented rules (strong on two-candidate cells, order-independent predicate on multi-way cells; compiler abort is a failure); annotated expression grammars are parsed by the real LR parser and compared with a precedence-climbing reference.",
   note="Trusted: the harness's reading of the documented rules (DESIGN.md appendix A.1); effective production meta-data taken from the spec; state correspondence raw/resolved verified per case."),
 "C06": dict(engine="A", technique="model-based property testing: real LR/GLR parsers vs reference interpreters implementing the documented lexical strategy pipeline over the same real table (proptest, shrinking)",
   text="Bounded random exploration: overlapping string/regex terminal sets with random priorities under small deterministic grammars, all combinations of most_specific / longest_match / grammar_order for LR and GLR, inputs from sentences and random strings; tokens chosen by the real LR parser and the set of tokenisations followed by the real GLR parser are compared with a reference interpreter that applies priority -> most specific -> longest match -> grammar order to the expected terminals of each state.",
   note="Trusted: reference recognisers (regex crate); the model's reading of the documented order (DESIGN.md appendix A.2); no empty-matching regexes, no duplicate string recognisers."),
 "C07": dict(engine="A", technique="property-based differential testing: real LR parser vs real GLR parser on the same generated deterministic grammar (proptest, shrinking)",
   text="Bounded random exploration: for generated conflict-free grammars the LR parser (defaults) and the GLR parser (LALR_RN) built from the same text are run on generated valid and invalid inputs (ASCII and multi-byte, multi-line); acceptance, solution count, tree (productions, token kinds/texts/spans, node spans after stripping trailing empty children) and error positions must agree.",
   note="Trusted: scope decision uses the real raw table (cross-checked against an independent LR(1) construction in C04); no Layout rule (GLR trees carry no layout by design)."),
 "C08": dict(engine="B", technique="property-based testing with a complete per-cell comparison: the real generated parser module compiled by rustc is queried for every (state, token) / (state, nonterminal) / state and compared with the real table dump; differential parsing arrays vs functions vs dump-driven runtime",
   text="Bounded random exploration over grammars; per generated parser (both table layouts x LR/GLR) the comparison is complete over all states, tokens and defined gotos: a harness-emitted module next to the generated g.rs calls PARSER_DEFINITION.actions / goto / expected_token_kinds / longest_match / grammar_order and prints the answers, which must equal the rendering of the real table dump; 10..13 generated inputs are parsed by the generated parser (generated recognisers, enums, parser struct) and must give exactly the tree / error offset of the dump-driven parse, hence the same for both layouts.",
   note="Trusted: rustc; syn to recover the generated enum variant lists; the dump hook; engine A's dump-driven runtime for the expected parse results; undefined gotos are not queried."),
 "C09": dict(engine="A", technique="property-based testing with a reference desugaring and exhaustive bounded language equivalence (Earley on both grammars over all strings up to length 5) plus structural comparison of productions and meta-data (proptest, shrinking)",
   text="Bounded random exploration: generated valid grammar texts using every implemented construct; the real grammar dump is compared with the harness's own model: start symbol, production lists of user rules symbol for symbol, inline-string resolution, assignment names, inherited meta-data (production's own datum wins), terminals; sugar is compared by language (helper nonterminal and whole grammar vs the documented expansion, exhaustive over all token strings up to length 4/5 for <= 4 terminals) and by helper count.",
   note="Trusted: reference desugaring (DESIGN.md appendix A.3); bounded equivalence is exhaustive only up to the length bound; one recorded finding (separator ignored in helper names) keyed on its structural class."),
 "C10": dict(engine="B", technique="property-based round-trip testing of the real generated default builder compiled by rustc: string literals of the AST's Debug rendering vs content-token leaves of the generic tree of the same input",
   text="Bounded random exploration: AST-shape-rich conflict-free generated grammars x {LR, GLR replay through the generated DefaultBuilder} x builder_loc_info, 8..11 derived sentences each; the real generated parser + actions parse each sentence and the sequence of string literals in the Debug rendering of the AST must equal the content tokens of the input in input order (from the dump-driven generic tree), and the number of None must equal the number of absent optionals.",
   note="Trusted: rustc; content tokens cannot be confused with identifiers (digits / lower-case words); only the documented @vec patterns are generated; `?=` is bound only to content-free tokens because the documentation does not define it."),
 "C11": dict(engine="B", technique="property-based testing with rustc as the oracle: generated grammars x a pairwise covering array of generator settings, real generated parser + actions type-checked by `cargo check` in a scratch crate",
   text="Bounded random exploration: AST-shape-rich generated grammars x 3 configurations each from a pairwise covering array over algorithm / builder / table layout / loc-info / regex engine / lexer type; every case the real compiler accepts is written by the real Settings::process_grammar into one scratch crate that path-depends on /repo/rustemo and must type-check; rustc diagnostics are attributed to cases by file path.",
   note="Trusted: rustc; the scratch crate layout mirrors a user crate (sibling modules, a one-line g_lexer.rs for custom lexers); three recorded findings keyed on rustc code + file + structural class."),
 "C12": dict(engine="A", technique="property-based testing against an Earley valid-prefix oracle: error offsets of the real LR and GLR parsers on generated invalid inputs (proptest, shrinking)",
   text="Bounded random exploration: generated grammars x generated invalid inputs (mutations, truncations, random tokens, foreign characters, whitespace/newline variations); the reported error offset, line/column and expected list of the real LR and GLR parsers are compared with the first non-viable token computed by an independent Earley recogniser; sentences must parse.",
   note="Trusted: Earley valid-prefix computation on the spec's BNF (all nonterminals productive by construction); prefix-free terminals; default whitespace skipping."),
 "C13": dict(engine="A", technique="property-based invariant checking over every generated parse tree (LR and all GLR forest trees) incl. pointer-level slice identity (proptest, shrinking)",
   text="Bounded random exploration: every tree built by the real LR parser and every tree (<=50) of the real GLR forest for generated grammars with nullable symbols anywhere and multi-line / multi-byte inputs is checked against the span/position invariants of the property (slice identity by pointer, ordering, parent span, empty-node placement, line/column arithmetic).",
   note="Trusted: the tree copier records slice pointers relative to the input buffer; default whitespace skipping; one recorded GLR finding (packed span shared across alternatives) is keyed on an exact signature."),
 "C14": dict(engine="A", technique="property-based round-trip and metamorphic testing of the generic tree under generated layout (whitespace skipping and four Layout-rule templates) (proptest, shrinking)",
   text="Bounded random exploration: generated conflict-free grammars under default whitespace skipping or a Layout rule (whitespace / line comments / nested block comments / non-empty variant); each generated sentence is rendered with several generated layout assignments; tokens + stored layouts must reproduce the input, each stored layout must be the very run the generator put before that token and a sentence of the layout language (independent recogniser), and all re-layouts must give the same tree.",
   note="Trusted: layout pools are sentences of the templates (unit-tested against the independent recogniser); LR only; prefix-free terminals."),
 "C15": dict(engine="A+F", technique="property-based robustness testing with a deterministic step budget (non-termination oracle) over generated grammars, arbitrary Unicode inputs and misbehaving custom lexers; libFuzzer campaign in the thorough tier",
   text="Bounded random exploration: every grammar family (incl. cyclic / empty-ambiguous for GLR, multi-byte tokens > 50 bytes, LR grammars whose conflicts are resolved by meta-data) x arbitrary Unicode / control-character strings and character-level mutations x {real StringLexer, four custom lexers ignoring the expected set}; parse must return Ok or Err under catch_unwind within a step budget counted in the harness's table/recogniser adapters (no wall clock). Debug assertions and overflow checks on.",
   note="Trusted: every loop iteration of both parsers calls the counted adapters (read from the source); budgets far above legitimate work for the bounded input sizes; one recorded finding (LR reduction loop on non-LR grammars forced by disambiguation) keyed on an exact signature."),
 "C16": dict(engine="A+F", technique="property-based robustness testing / grammar-aware mutation fuzzing of the compiler (generated valid texts, dictionary-based token and character mutations, repository grammars as seeds) under catch_unwind; libFuzzer campaign in the thorough tier",
   text="Bounded random exploration: grammar texts over every construct of the grammar language, repository grammars and raw strings, mutated with a 100-entry dictionary (unimplemented operators, groups, reserved names, keywords, dotted names, huge integers, broken literals), x {LR,GLR} x table types x prefer-shift settings x builder type x table layout x lexer type x dot; each text runs through the real Settings::process_grammar (real files in a scratch directory: grammar parsing, table construction, type inference, code and actions generation, dot export) and through the table hook; the result must be Ok or a non-empty error, never a panic.",
   note="Trusted: panics are observed through a panic hook + catch_unwind; signatures are file + source line text + normalised message; two recorded findings (integer constant unwrap) keyed on exact signatures; compile time is not bounded by this check (wall-clock watchdog => inconclusive)."),
 "C17": dict(engine="C", technique="metamorphic property-based testing over fresh processes (hash seeds), processing orders and interfaces (rcomp command line vs library API) with byte-level comparison of generated files",
   text="Bounded random exploration: AST-shape-rich generated grammars (incl. names that collide after de-duplication) x random subsets of the rcomp flags; the same command line in 5 fresh processes, the API generating [A,B,A] / [B,A] in one process, and rcomp vs the API configured through the harness's own flag->setter table must all write byte-identical parser / actions / dot files and agree on success.",
   note="Trusted: the harness's flag table (from rcomp --help and the Settings docs); hash-seed dependence is detected probabilistically (5 processes); order-dependent flag combinations are excluded by construction and counted; rcomp is rebuilt from /repo by ./check."),
 "C18": dict(engine="C", technique="stateful / model-based property testing: generated edit histories of the actions file interpreted against the real generator, model = list of syn items compared as printed by prettyplease (proptest, whole history shrinks)",
   text="Bounded random exploration: generated grammars x generated histories (delete generated items, rewrite bodies and types, add user items, regenerate, regenerate twice, change the grammar and regenerate); after every regeneration the real file is compared with the model: every previous item kept in order, new items exactly the missing ones of a fresh forced generation and identical to them, no name defined twice, second regeneration byte-identical.",
   note="Trusted: syn parsing + prettyplease printing as the item equality (formatting and non-doc comments are documented as not preserved); header items are never deleted; fresh generations that already define a name twice are C11's subject and discarded (counted)."),
}
ALL = ["C%02d" % i for i in range(1, 19)]

def main():
    checks = []
    for pid in ALL:
        if pid not in CHECKS: continue
        c = CHECKS[pid]
        checks.append({
            "property_id": pid,
            "quick_cmd": f"./check {pid} quick",
            "thorough_cmd": f"./check {pid} thorough",
            "evidence_file": f"/verif/evidence/{pid}.json",
            "replay_cmd_template": f"./check {pid} --replay {{path}}",
            "engine": c["engine"],
            "level_claimed": {"category": "exploration", "text": c["text"], "design_ref": f"DESIGN.md section 5, {pid}"},
            "level_note": c["note"],
            "technique": c["technique"],
        })
    hooks_commits = subprocess.run(["git","-C","/repo","log","--format=%H","--grep=opt-in 'verif' feature"],capture_output=True,text=True).stdout.split()
    m = {
        "version": 1,
        "setup_cmd": "./check --setup",
        "hooks": {
            "guard": "cargo feature `verif` of rustemo-compiler",
            "enable": "the harness crate depends on /repo/rustemo-compiler with features=[\"verif\"] (path dependency, rebuilt by cargo on every check)",
            "baseline_off_cmd": "cd /repo && cargo test --workspace --no-fail-fast --offline",
            "source_commits": hooks_commits,
            "add_only": True,
        },
        "engines": [
            {"name": "A", "path": "/verif/harness", "serves_properties": [p for p in ALL if p in CHECKS and CHECKS[p]["engine"]=="A"],
             "kind_free_text": "in-process: real compiler -> table dump (hook) -> real LR/GLR runtime driven by the dump; proptest generators, independent oracles"},
        ],
        "checks": checks,
        "notes": "All checks: exit 0 = held on everything explored, 1 = VIOLATION line with replay file, 2 = inconclusive (build / infrastructure). VERIF_SEED selects the PRNG stream.",
        "not_applicable": [{"property_id": p, "reason": "check not built yet (work in progress; property-based testing applies, see DESIGN.md)"} for p in ALL if p not in CHECKS],
    }
    json.dump(m, open(os.path.join(ROOT,"MANIFEST.json"),"w"), indent=1)
main()
