//! C13 — spans and positions locate every node. Invariant over every LR tree and GLR tree.

use super::common::*;
use crate::compile::{guarded, has_conflicts, Cfg};
use crate::dynp::{self, RunOpts};
use crate::gen::{self, Cursor, LayoutStyle, Pool};
use crate::runner::{Outcome, Prop, Stats, Tier};
use proptest::prelude::*;
use serde_json::{json, Value};

pub struct C13;

fn render(case: &GCase, bnf: &crate::spec::Bnf, ii: usize) -> gen::Rendered {
    let tape = &case.tapes[ii];
    let toks = gen::tokens_for(bnf, tape, 10);
    let mut c = Cursor::new(&tape.tape);
    if case.layout_mode > 0 {
        return gen::render_with_layout(&case.spec.terms, &toks, layout_kind_of(case.layout_mode), ii % 3 == 2, &mut c);
    }
    let style = match ii % 3 {
        _ if case.lines && ii % 2 == 1 => LayoutStyle::Lines,
        0 => LayoutStyle::Unicode,
        1 => LayoutStyle::Ascii,
        _ => LayoutStyle::Minimal,
    };
    gen::render_tokens(&case.spec.terms, &toks, style, &mut c)
}

/// some node ends before its last child, and that child is an EMPTY node
fn ends_before_empty_last_child(n: &dynp::Node) -> bool {
    match n {
        dynp::Node::Term { .. } => false,
        dynp::Node::NonTerm { span, children, .. } => {
            // EMPTY node or a subtree without leaves
            let here = match children.last() {
                Some(c @ dynp::Node::NonTerm { span: cs, .. }) => {
                    let mut l = vec![];
                    c.leaves(&mut l);
                    l.is_empty() && cs.end.pos != span.end.pos
                }
                _ => false,
            };
            here || children.iter().any(ends_before_empty_last_child)
        }
    }
}

/// GLR inputs of C13 are capped: the check calls Forest::solutions(), see the loop below
const GLR_MAX_TOKENS: usize = 8;

impl Prop for C13 {
    type Case = GCase;
    fn id(&self) -> &'static str {
        "C13"
    }
    fn strategy(&self, tier: Tier) -> BoxedStrategy<GCase> {
        let (nts, inputs) = match tier {
            Tier::Quick => (5, 10..18),
            Tier::Thorough => (7, 20..30),
        };
        let plain = gcase(gen::BnfParams { max_nts: nts, ambiguous_ok: true, ..gen::BnfParams::lr_small() }, inputs.clone(), 24);
        let uni = gcase(
            gen::BnfParams { max_nts: nts, pool: Pool::Unicode(false), ambiguous_ok: true, ..gen::BnfParams::lr_small() },
            inputs,
            24,
        );
        prop_oneof![plain, uni].boxed()
    }
    fn cases(&self, tier: Tier) -> u32 {
        match tier {
            Tier::Quick => 5000,
            Tier::Thorough => 100_000,
        }
    }
    fn rule(&self) -> String {
        "case = generated BNF grammar (nullable symbols at the start / middle / end of productions; \
         ASCII and multi-byte terminals) + input tapes rendered with ASCII or multi-byte whitespace \
         and newlines; every tree returned by the real LR parser (when the grammar compiles for LR) \
         and every tree (<= 50) of the real GLR forest (acyclic grammars) is checked: token value is \
         the very slice input[span] (pointer and length), leaves ordered and non-overlapping, \
         interior span = [first child start, last child end], empty node zero-width within \
         [end of previous leaf or 0, start of next leaf or len], line = 1 + newlines before, \
         column = bytes since line start for every position. non-trivial = (grammar, input) whose \
         tree has an empty node that is not first in the input, or a multi-line input with a \
         multi-byte character"
            .into()
    }
    fn assumptions(&self) -> Vec<String> {
        vec!["inputs <= 10 tokens (GLR: <= 8, because Forest::solutions() is exponential on highly ambiguous forests); <= 50 GLR trees per input".into()]
    }
    fn describe(&self, case: &GCase) -> Value {
        let bnf = case.spec.bnf();
        let inputs: Vec<String> = (0..case.tapes.len()).map(|i| render(case, &bnf, i).text).collect();
        json!({"grammar": case.spec.render(), "inputs": inputs})
    }
    fn check(&self, case: &GCase, st: &mut Stats) -> Outcome {
        let mut spec_l = case.spec.clone();
        spec_l.layout = layout_kind_of(case.layout_mode);
        let spec = &spec_l;
        let bnf = spec.bnf();
        let text = spec.render();
        st.class(&format!("layout-mode-{}", case.layout_mode));
        let lr_cfg = Cfg::lr();
        let lr = match compile_or_discard(&text, &lr_cfg, st) {
            Ok(d) => {
                if has_conflicts(&d) {
                    None
                } else {
                    Some(d)
                }
            }
            Err(_) => None,
        };
        let glr_cfg = Cfg::glr();
        let glr = if bnf.is_cyclic() {
            st.class("glr-skipped-cyclic");
            None
        } else {
            match compile_or_discard(&text, &glr_cfg, st) {
                Ok(d) => Some(d),
                Err(_) => None,
            }
        };
        if lr.is_none() && glr.is_none() {
            st.discard("neither-lr-nor-glr");
            return Outcome::Pass;
        }
        let rendered: Vec<gen::Rendered> = (0..case.tapes.len()).map(|i| render(case, &bnf, i)).collect();
        for (algo, d, cfg) in [("LR", &lr, &lr_cfg), ("GLR", &glr, &glr_cfg)] {
            let d = match d {
                Some(d) => d,
                None => continue,
            };
            if install(d, cfg).is_err() {
                continue;
            }
            st.class(&format!("grammar-{algo}"));
            for r in &rendered {
                let inp = &r.text;
                // Forest::solutions() (real code, not step-counted) recomputes shared sub-forests:
                // on highly ambiguous grammars it is exponential in the token count
                if algo == "GLR" && r.spans.len() > GLR_MAX_TOKENS {
                    st.class("glr-input-skipped-over-8-tokens");
                    continue;
                }
                st.sub();
                dynp::reset_steps(if algo == "LR" { LR_STEPS } else { GLR_STEPS });
                let mut solutions = 1;
                let trees: Vec<dynp::Node> = if algo == "LR" {
                    match guarded(|| dynp::lr_parse(inp, RunOpts::default())) {
                        Ok(Ok(t)) => vec![t],
                        Ok(Err(_)) => vec![],
                        Err(p) => {
                            if std::env::var_os("VERIF_DEBUG_HANG").is_some() && is_step_panic(&p) {
                                eprintln!("HANG-LR grammar:\n{text}\ninput {inp:?}");
                            }
                            match parse_panic("parse|LR", &p, st) { Some(o) => return o, None => continue }
                        }
                    }
                } else {
                    match guarded(|| dynp::glr_parse(inp, RunOpts::default(), 50, false)) {
                        Ok(Ok(o)) => {
                            solutions = o.solutions;
                            o.trees
                        }
                        Ok(Err(_)) => vec![],
                        Err(p) => match parse_panic("parse|GLR", &p, st) { Some(o) => return o, None => continue },
                    }
                };
                for t in &trees {
                    if let Err((clause, msg)) = span_invariants(inp, t) {
                        // structural class of the recorded GLR finding: with a Layout rule the
                        // span of a node whose last child is EMPTY stops at its last token
                        let rn_layout = algo == "GLR" && case.layout_mode > 0 && clause == "nonterm-end" && ends_before_empty_last_child(t);
                        return Outcome::fail(
                            if rn_layout {
                                "nonterm-end|GLR|layout-rule|last-child-empty".to_string()
                            } else {
                                format!("{clause}|{algo}{}", if solutions > 1 { "|ambiguous-forest" } else { "" })
                            },
                            format!("grammar:\n{text}\ninput: {inp:?}\n{msg}\ntree: {}", canon_real(d, t, true)),
                        );
                    }
                    // non-triviality
                    let mut leaves = vec![];
                    t.leaves(&mut leaves);
                    let empty_not_first = {
                        fn f(n: &dynp::Node, seen_leaf: &mut bool) -> bool {
                            match n {
                                dynp::Node::Term { .. } => {
                                    *seen_leaf = true;
                                    false
                                }
                                dynp::Node::NonTerm { children, .. } => {
                                    if children.is_empty() {
                                        *seen_leaf
                                    } else {
                                        children.iter().any(|c| f(c, seen_leaf))
                                    }
                                }
                            }
                        }
                        let mut s = false;
                        f(t, &mut s)
                    };
                    let multiline_mb = inp.contains('\n') && !inp.is_ascii() && !leaves.is_empty();
                    if empty_not_first {
                        st.class("tree-empty-node-not-first");
                    }
                    if multiline_mb {
                        st.class("multiline-multibyte");
                    }
                    if empty_not_first || multiline_mb {
                        st.nontrivial(&format!("{text}\n{algo}\n{inp}"), || {
                            json!({"grammar": text, "algo": algo, "input": inp, "tree": canon_real(d, t, true)})
                        });
                    }
                }
            }
            // partial parsing stopped by half a layout item (two-token layout template): no span of
            // the returned tree may reach into the text that was not parsed
            if algo == "LR" && case.layout_mode >= 5 {
                for (ii, r) in rendered.iter().enumerate() {
                    let k = match (0..r.spans.len()).find(|k| r.layouts.get(*k).map(|l| l.is_empty()).unwrap_or(false) && (*k + ii) % 2 == 0) {
                        Some(k) => k,
                        None => continue,
                    };
                    let at = r.spans[k].0;
                    let mut text2 = r.text.clone();
                    text2.insert(at, '~');
                    st.sub();
                    dynp::reset_steps(LR_STEPS);
                    if let Ok(Ok(t)) = guarded(|| dynp::lr_parse(&text2, RunOpts { partial: true, skip_ws: true })) {
                        if let Err((clause, msg)) = span_invariants(&text2, &t) {
                            return Outcome::fail(
                                format!("partial|{clause}|LR"),
                                format!("grammar:\n{text}\ninput: {text2:?} (partial_parse on)\n{msg}\ntree: {}", canon_real(d, &t, true)),
                            );
                        }
                        fn max_end(n: &dynp::Node) -> usize {
                            match n {
                                dynp::Node::Term { span, .. } => span.end.pos,
                                dynp::Node::NonTerm { span, children, .. } => children.iter().map(max_end).fold(span.end.pos, usize::max),
                            }
                        }
                        if max_end(&t) > at {
                            return Outcome::fail(
                                "partial|span-reaches-into-unparsed-input|LR".to_string(),
                                format!("grammar:\n{text}\ninput: {text2:?} (partial_parse on; nothing can be parsed at offset {at})\na span of the tree ends at {}\ntree: {}", max_end(&t), canon_real(d, &t, true)),
                            );
                        }
                        st.class("partial-parse-stopped-by-half-layout-item");
                    }
                }
            }
            // the same inputs once more through ONE parser instance: positions and spans of
            // every tree must still refer to ITS input
            {
                let texts: Vec<&str> = rendered.iter().filter(|r| algo == "LR" || r.spans.len() <= GLR_MAX_TOKENS).map(|r| r.text.as_str()).collect();
                let trees: Vec<(usize, dynp::Node)> = if algo == "LR" {
                    dynp::lr_parse_session(&texts, RunOpts::default(), LR_STEPS)
                        .into_iter()
                        .enumerate()
                        .filter_map(|(k, r)| r.ok().and_then(|x| x.ok()).map(|t| (k, t)))
                        .collect()
                } else {
                    dynp::glr_parse_session(&texts, RunOpts::default(), GLR_STEPS, true)
                        .into_iter()
                        .enumerate()
                        .filter_map(|(k, r)| r.ok().and_then(|x| x.ok()).and_then(|(_, t)| t).map(|t| (k, t)))
                        .collect()
                };
                for (k, t) in &trees {
                    st.sub();
                    if let Err((clause, msg)) = span_invariants(texts[*k], t) {
                        return Outcome::fail(
                            format!("reused-parser|{clause}|{algo}"),
                            format!("grammar:\n{text}\none parser instance parsed, in order: {:?}\ninput #{k}: {:?}\n{msg}\ntree: {}", &texts[..=*k], texts[*k], canon_real(d, t, true)),
                        );
                    }
                }
                st.class("reused-parser-session");
            }
            dynp::uninstall();
        }
        Outcome::Pass
    }
}
