//! Calls into the real compiler (behind the `verif` hook) and panic capture.

use rustemo_compiler::verif::{self, Dump};
use rustemo_compiler::{ParserAlgo, Settings, TableType};
use serde::{Deserialize, Serialize};
use std::cell::RefCell;
use std::panic::{catch_unwind, AssertUnwindSafe};
use std::rc::Rc;

#[derive(Clone, Copy, Debug, PartialEq, Eq, Hash, Serialize, Deserialize)]
pub enum Algo {
    LR,
    GLR,
}

#[derive(Clone, Copy, Debug, PartialEq, Eq, Hash, Serialize, Deserialize)]
pub enum TT {
    Lalr,
    Pager,
    Rn,
}

impl TT {
    pub fn name(&self) -> &'static str {
        match self {
            TT::Lalr => "LALR",
            TT::Pager => "LALR_PAGER",
            TT::Rn => "LALR_RN",
        }
    }
    pub fn cli(&self) -> &'static str {
        match self {
            TT::Lalr => "lalr",
            TT::Pager => "lalr-pager",
            TT::Rn => "lalr-rn",
        }
    }
}

/// Settings the way a user sets them: `parser_algo` first (it changes defaults), then the
/// explicit overrides.
#[derive(Clone, Copy, Debug, PartialEq, Eq, Hash, Serialize, Deserialize)]
pub struct Cfg {
    pub algo: Algo,
    pub table: Option<TT>,
    pub prefer_shifts: Option<bool>,
    pub pse: Option<bool>,
    pub most_specific: Option<bool>,
    pub longest: Option<bool>,
    pub order: Option<bool>,
}

impl Cfg {
    pub const fn lr() -> Self {
        Cfg {
            algo: Algo::LR,
            table: None,
            prefer_shifts: None,
            pse: None,
            most_specific: None,
            longest: None,
            order: None,
        }
    }
    pub const fn glr() -> Self {
        Cfg { algo: Algo::GLR, ..Cfg::lr() }
    }
    pub fn with_table(mut self, t: TT) -> Self {
        self.table = Some(t);
        self
    }
    /// "Raw" configuration: no conflict in the table is resolved by a preference
    /// (GLR algorithm keeps all candidate actions; shift preferences are off).
    pub fn raw(t: TT) -> Self {
        Cfg { table: Some(t), prefer_shifts: Some(false), pse: Some(false), ..Cfg::glr() }
    }

    pub fn settings(&self) -> Settings {
        let mut s = Settings::new();
        s = match self.algo {
            Algo::LR => s.parser_algo(ParserAlgo::LR),
            Algo::GLR => s.parser_algo(ParserAlgo::GLR),
        };
        if let Some(t) = self.table {
            s = s.table_type(match t {
                TT::Lalr => TableType::LALR,
                TT::Pager => TableType::LALR_PAGER,
                TT::Rn => TableType::LALR_RN,
            });
        }
        if let Some(b) = self.prefer_shifts {
            s = s.prefer_shifts(b);
        }
        if let Some(b) = self.pse {
            s = s.prefer_shifts_over_empty(b);
        }
        if let Some(b) = self.most_specific {
            s = s.lexical_disamb_most_specific(b);
        }
        if let Some(b) = self.longest {
            s = s.lexical_disamb_longest_match(b);
        }
        if let Some(b) = self.order {
            // the API panics when grammar order is disabled for LR; never ask for that
            if !(self.algo == Algo::LR && !b) {
                s = s.lexical_disamb_grammar_order(b);
            }
        }
        s
    }

    /// The same configuration with the setters in the order the rcomp command line uses
    /// (table type and prefer-shift flags first, `parser_algo` last). Only meaningful for LR,
    /// where `parser_algo(LR)` is documented to change nothing.
    pub fn settings_algo_last(&self) -> Settings {
        let mut s = Settings::new();
        if let Some(t) = self.table {
            s = s.table_type(match t {
                TT::Lalr => TableType::LALR,
                TT::Pager => TableType::LALR_PAGER,
                TT::Rn => TableType::LALR_RN,
            });
        }
        if let Some(b) = self.prefer_shifts {
            s = s.prefer_shifts(b);
        }
        if let Some(b) = self.pse {
            s = s.prefer_shifts_over_empty(b);
        }
        s.parser_algo(ParserAlgo::LR)
    }

    /// effective values as the documentation defines the defaults
    pub fn eff_longest(&self) -> bool {
        self.longest.unwrap_or(true)
    }
    pub fn eff_most_specific(&self) -> bool {
        self.most_specific.unwrap_or(true)
    }
    pub fn eff_order(&self) -> bool {
        match self.algo {
            Algo::LR => true,
            Algo::GLR => self.order.unwrap_or(false),
        }
    }
    pub fn eff_prefer_shifts(&self) -> bool {
        self.prefer_shifts.unwrap_or(false)
    }
    pub fn eff_pse(&self) -> bool {
        match self.algo {
            Algo::LR => self.pse.unwrap_or(true),
            Algo::GLR => self.pse.unwrap_or(false),
        }
    }
    pub fn eff_table(&self) -> TT {
        self.table.unwrap_or(match self.algo {
            Algo::LR => TT::Pager,
            Algo::GLR => TT::Rn,
        })
    }
}

// ------------------------------------------------------------------------------------
// panic capture

#[derive(Clone, Debug, PartialEq, Eq)]
pub struct PanicInfo {
    pub file: String,
    pub line: u32,
    pub message: String,
}

thread_local! {
    static LAST_PANIC: RefCell<Option<PanicInfo>> = const { RefCell::new(None) };
}

pub fn install_panic_hook() {
    std::panic::set_hook(Box::new(|info| {
        let (file, line) = info
            .location()
            .map(|l| (l.file().to_string(), l.line()))
            .unwrap_or_else(|| ("?".into(), 0));
        let message = if let Some(s) = info.payload().downcast_ref::<&str>() {
            s.to_string()
        } else if let Some(s) = info.payload().downcast_ref::<String>() {
            s.clone()
        } else {
            "<non-string panic payload>".to_string()
        };
        if std::env::var_os("VERIF_DEBUG_PANIC").is_some() {
            eprintln!("PANIC at {file}:{line}: {message}");
        }
        LAST_PANIC.with(|p| *p.borrow_mut() = Some(PanicInfo { file, line, message }));
    }));
}

pub fn take_panic() -> Option<PanicInfo> {
    LAST_PANIC.with(|p| p.borrow_mut().take())
}

/// Run `f`, converting a panic into `Err(PanicInfo)`.
pub fn guarded<R>(f: impl FnOnce() -> R) -> Result<R, PanicInfo> {
    let _ = take_panic();
    match catch_unwind(AssertUnwindSafe(f)) {
        Ok(r) => Ok(r),
        Err(_) => Err(take_panic().unwrap_or(PanicInfo {
            file: "?".into(),
            line: 0,
            message: "panic without hook info".into(),
        })),
    }
}

/// Normalise a message: digits runs -> N, quoted payloads -> "..", trimmed to 160 chars.
pub fn norm_msg(m: &str) -> String {
    let mut o = String::new();
    let mut in_digits = false;
    let mut quote: Option<char> = None;
    for c in m.chars() {
        if let Some(q) = quote {
            if c == q {
                quote = None;
                o.push(q);
            }
            continue;
        }
        if c == '"' || c == '\'' || c == '`' {
            quote = Some(c);
            o.push(c);
            o.push_str("..");
            in_digits = false;
            continue;
        }
        if c.is_ascii_digit() {
            if !in_digits {
                o.push('N');
            }
            in_digits = true;
        } else {
            in_digits = false;
            if c == '\n' {
                o.push(' ');
            } else {
                o.push(c);
            }
        }
    }
    o.chars().take(160).collect()
}

/// Line-number-free signature of a panic: file (relative to the repo) + trimmed text of the
/// source line at the panic location + normalised message.
pub fn panic_sig(p: &PanicInfo) -> String {
    let rel = p
        .file
        .strip_prefix("/repo/")
        .map(|s| s.to_string())
        .unwrap_or_else(|| {
            // paths of registry crates: keep crate dir + file
            let parts: Vec<&str> = p.file.rsplit('/').take(3).collect();
            parts.into_iter().rev().collect::<Vec<_>>().join("/")
        });
    let src_line = std::fs::read_to_string(&p.file)
        .ok()
        .and_then(|s| s.lines().nth((p.line as usize).saturating_sub(1)).map(|l| l.trim().to_string()))
        .unwrap_or_default();
    format!("panic|{}|{}|{}", rel, src_line, norm_msg(&p.message))
}

// ------------------------------------------------------------------------------------

#[derive(Debug)]
pub enum CompileErr {
    /// The compiler returned an error value.
    Err(String),
    /// The compiler panicked.
    Panic(PanicInfo),
}

pub fn compile(text: &str, cfg: &Cfg) -> Result<Rc<Dump>, CompileErr> {
    let settings = cfg.settings();
    match guarded(|| verif::compile_str(text, &settings)) {
        Ok(Ok(d)) => Ok(Rc::new(d)),
        Ok(Err(e)) => Err(CompileErr::Err(format!("{e}"))),
        Err(p) => Err(CompileErr::Panic(p)),
    }
}

pub fn has_conflicts(d: &Dump) -> bool {
    d.states.iter().any(|s| s.actions.iter().any(|a| a.len() > 1))
}

pub fn conflict_cells(d: &Dump) -> usize {
    d.states.iter().map(|s| s.actions.iter().filter(|a| a.len() > 1).count()).sum()
}
