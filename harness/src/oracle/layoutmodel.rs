//! Reference recognisers for layout: "is whitespace" and the Layout templates.

use crate::spec::LayoutKind;

pub fn is_ws(s: &str) -> bool {
    s.chars().all(|c| c.is_whitespace())
}

/// Is `s` a sentence of the Layout rule of the given template?
pub fn is_layout(kind: LayoutKind, s: &str) -> bool {
    let b: Vec<char> = s.chars().collect();
    let mut i = 0;
    let mut items = 0;
    while i < b.len() {
        if b[i].is_whitespace() {
            while i < b.len() && b[i].is_whitespace() {
                i += 1;
            }
            items += 1;
        } else if kind == LayoutKind::WsPair {
            if i + 1 < b.len() && b[i] == '~' && b[i + 1] == '^' {
                i += 2;
                items += 1;
            } else {
                return false;
            }
        } else if kind != LayoutKind::Ws && i + 1 < b.len() && b[i] == '/' && b[i + 1] == '/' {
            while i < b.len() && b[i] != '\n' {
                i += 1;
            }
            items += 1;
        } else if matches!(kind, LayoutKind::WsLineBlock | LayoutKind::WsLineBlockPlus)
            && i + 1 < b.len()
            && b[i] == '/'
            && b[i + 1] == '*'
        {
            match block(&b, i) {
                Some(e) => i = e,
                None => return false,
            }
            items += 1;
        } else {
            return false;
        }
    }
    kind != LayoutKind::WsLineBlockPlus || items > 0
}

/// block comment starting at i ("/*"); returns the index after the closing "*/"
fn block(b: &[char], i: usize) -> Option<usize> {
    let mut j = i + 2;
    loop {
        if j + 1 < b.len() && b[j] == '*' && b[j + 1] == '/' {
            return Some(j + 2);
        }
        if j >= b.len() {
            return None;
        }
        if j + 1 < b.len() && b[j] == '/' && b[j + 1] == '*' {
            j = block(b, j)?;
        } else if j + 1 < b.len() && b[j] == '/' && b[j + 1] == '/' {
            // line comment inside a block comment (LComment: ... | LCommentLine)
            while j < b.len() && b[j] != '\n' {
                j += 1;
            }
        } else {
            j += 1;
        }
    }
}

#[cfg(test)]
mod tests {
    use super::*;
    use crate::gen::layout_pool;
    #[test]
    fn pools_are_sentences() {
        for k in [LayoutKind::Ws, LayoutKind::WsLine, LayoutKind::WsLineBlock, LayoutKind::WsPair] {
            for s in layout_pool(Some(k)) {
                assert!(is_layout(k, s), "{k:?} {s:?}");
            }
        }
        assert!(!is_layout(LayoutKind::Ws, "// x"));
        assert!(!is_layout(LayoutKind::WsLineBlock, "/* x"));
        assert!(!is_layout(LayoutKind::WsLineBlock, "a"));
        assert!(is_layout(LayoutKind::WsLineBlock, "/* a /* b */ c */ // d"));
    }
}
