pub mod compile;
pub mod dynp;
pub mod gen;
pub mod oracle;
pub mod spec;
pub mod props;
pub mod runner;
pub mod engine_b;
