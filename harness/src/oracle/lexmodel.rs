//! Reference model of the documented lexical disambiguation pipeline and reference LR / GLR
//! interpreters over a table dump that lex with it. Shares no code with rustemo's lexer or
//! parsers; the only thing taken from the real compiler is the action/goto table itself.

use crate::oracle::trees::{ref_recs, RefRec};
use crate::spec::{RecSpec, TermSpec};
use rustemo_compiler::verif::{DAction, Dump};
use std::collections::BTreeSet;

#[derive(Clone, Copy, Debug)]
pub struct LexFlags {
    pub most_specific: bool,
    pub longest: bool,
    pub order: bool,
}

pub struct LexModel<'a> {
    pub d: &'a Dump,
    pub input: &'a str,
    /// per dump terminal: (priority, is_string, recogniser); index 0 = STOP
    pub terms: Vec<(u32, bool, Option<RefRec>)>,
    pub flags: LexFlags,
    /// statistics: which strategy discriminated
    pub decided: Vec<&'static str>,
}

#[derive(Clone, Debug, PartialEq, Eq, PartialOrd, Ord)]
pub struct MTok {
    pub term: usize,
    pub start: usize,
    pub len: usize,
}

impl<'a> LexModel<'a> {
    pub fn new(d: &'a Dump, spec_terms: &[TermSpec], input: &'a str, flags: LexFlags) -> Result<Self, String> {
        let recs = ref_recs(spec_terms)?;
        let mut by_name: Vec<(String, u32, bool, Option<RefRec>)> = vec![];
        for (t, r) in spec_terms.iter().zip(recs.into_iter()) {
            by_name.push((t.name.clone(), t.prio.unwrap_or(10), matches!(t.rec, RecSpec::Str(_)), Some(r)));
        }
        let mut terms = vec![];
        for (i, dt) in d.terminals.iter().enumerate() {
            if i == 0 {
                terms.push((100, false, None));
            } else {
                let k = by_name.iter().position(|x| x.0 == dt.name).ok_or(format!("terminal {} unknown", dt.name))?;
                let (_, p, s, r) = std::mem::replace(&mut by_name[k], (String::new(), 0, false, None));
                terms.push((p, s, r));
            }
        }
        Ok(LexModel { d, input, terms, flags, decided: vec![] })
    }

    pub fn skip_ws(&self, pos: usize) -> usize {
        let mut p = pos;
        for c in self.input[pos..].chars() {
            if c.is_whitespace() {
                p += c.len_utf8();
            } else {
                break;
            }
        }
        p
    }

    fn mat(&self, t: usize, pos: usize) -> Option<usize> {
        let rest = &self.input[pos..];
        if t == 0 {
            return if rest.is_empty() { Some(0) } else { None };
        }
        match self.terms[t].2.as_ref()? {
            RefRec::Str(s) => {
                if rest.starts_with(s.as_str()) {
                    Some(s.len())
                } else {
                    None
                }
            }
            RefRec::Re(r) => r.find(rest).map(|m| m.end()),
        }
    }

    /// expected terminals of a state: those with a non-empty action cell
    pub fn expected(&self, q: usize) -> Vec<usize> {
        (0..self.d.terminals.len()).filter(|t| !self.d.states[q].actions[*t].is_empty()).collect()
    }

    /// The documented selection (DESIGN.md A.2). `pos` is the position before layout.
    pub fn select(&mut self, q: usize, pos: usize) -> Vec<MTok> {
        let p = self.skip_ws(pos);
        let mut m: Vec<MTok> = self
            .expected(q)
            .into_iter()
            .filter_map(|t| self.mat(t, p).map(|len| MTok { term: t, start: p, len }))
            .collect();
        if m.len() <= 1 {
            return m;
        }
        // 1. priority
        let maxp = m.iter().map(|x| self.terms[x.term].0).max().unwrap();
        let before = m.len();
        m.retain(|x| self.terms[x.term].0 == maxp);
        if m.len() < before {
            self.decided.push("priority");
        }
        // 2. most specific: longest string recogniser over any regex
        if self.flags.most_specific && m.len() > 1 {
            if let Some(best) = m.iter().filter(|x| self.terms[x.term].1).map(|x| x.len).max() {
                let before = m.len();
                m.retain(|x| self.terms[x.term].1 && x.len == best);
                if m.len() < before {
                    self.decided.push("most-specific");
                }
            }
        }
        // 3. longest match
        if self.flags.longest && m.len() > 1 {
            let best = m.iter().map(|x| x.len).max().unwrap();
            let before = m.len();
            m.retain(|x| x.len == best);
            if m.len() < before {
                self.decided.push("longest-match");
            }
        }
        // 4. grammar order
        if self.flags.order && m.len() > 1 {
            m.truncate(1);
            self.decided.push("grammar-order");
        }
        if m.len() > 1 {
            self.decided.push("kept-several");
        }
        m
    }

    /// Reference LR interpreter (re-lexes after every reduction, like an LR(1) parser with
    /// context-aware lexing). Returns the shifted tokens on acceptance.
    pub fn run_lr(&mut self, step_cap: usize) -> Result<Vec<MTok>, String> {
        let mut stack = vec![0usize];
        let mut pos = 0usize;
        let mut shifted = vec![];
        for _ in 0..step_cap {
            let q = *stack.last().unwrap();
            let toks = self.select(q, pos);
            let tok = match toks.first() {
                Some(t) => t.clone(),
                None => return Err(format!("no token at {}", self.skip_ws(pos))),
            };
            let cell = &self.d.states[q].actions[tok.term];
            match cell.first() {
                Some(DAction::Shift(s)) => {
                    stack.push(*s);
                    pos = tok.start + tok.len;
                    shifted.push(tok);
                }
                Some(DAction::Reduce(p, l)) => {
                    for _ in 0..*l {
                        stack.pop();
                    }
                    let from = *stack.last().ok_or("stack underflow")?;
                    let nt = self.d.productions[*p].nonterminal;
                    let to = self.d.states[from].gotos[nt].ok_or("no goto")?;
                    stack.push(to);
                }
                Some(DAction::Accept) => return Ok(shifted),
                None => return Err("empty cell".into()),
            }
        }
        Err("step cap".into())
    }

    /// Reference non-deterministic interpreter for GLR: follows every surviving token and
    /// every action of a cell; the lookahead token is kept across reductions.
    /// Returns the set of accepted token sequences (None if the search budget is exceeded).
    pub fn run_glr(&mut self, budget: usize) -> Option<BTreeSet<Vec<MTok>>> {
        let mut acc = BTreeSet::new();
        // (stack, pos, token ahead, shifted, reductions since last shift)
        let mut todo: Vec<(Vec<usize>, usize, Option<MTok>, Vec<MTok>, usize)> = vec![(vec![0], 0, None, vec![], 0)];
        let mut work = 0;
        while let Some((stack, pos, tok, shifted, nred)) = todo.pop() {
            work += 1;
            if work > budget {
                return None;
            }
            let q = *stack.last().unwrap();
            match tok {
                None => {
                    for t in self.select(q, pos) {
                        todo.push((stack.clone(), pos, Some(t), shifted.clone(), 0));
                    }
                }
                Some(t) => {
                    for a in self.d.states[q].actions[t.term].clone() {
                        match a {
                            DAction::Shift(s) => {
                                let mut st = stack.clone();
                                st.push(s);
                                let mut sh = shifted.clone();
                                sh.push(t.clone());
                                todo.push((st, t.start + t.len, None, sh, 0));
                            }
                            DAction::Reduce(p, l) => {
                                if nred > 200 {
                                    return None;
                                }
                                let mut st = stack.clone();
                                for _ in 0..l {
                                    st.pop();
                                }
                                if let Some(from) = st.last() {
                                    let nt = self.d.productions[p].nonterminal;
                                    if let Some(to) = self.d.states[*from].gotos[nt] {
                                        st.push(to);
                                        todo.push((st, pos, Some(t.clone()), shifted.clone(), nred + 1));
                                    }
                                }
                            }
                            DAction::Accept => {
                                acc.insert(shifted.clone());
                            }
                        }
                    }
                }
            }
        }
        Some(acc)
    }
}
