//! Helpers shared by the engine-A properties.

use crate::compile::{compile, panic_sig, Cfg, CompileErr};
use crate::dynp::{self, Node};
use crate::gen::{self, InputTape};
use crate::runner::{Outcome, Stats};
use crate::spec::*;
use proptest::prelude::*;
use rustemo_compiler::verif::Dump;
use serde::{Deserialize, Serialize};
use std::rc::Rc;

#[derive(Clone, Debug, Serialize, Deserialize)]
pub struct GCase {
    pub spec: GrammarSpec,
    pub tapes: Vec<InputTape>,
    /// layout runs that end in a line break after blanks (`" \n"`, `"\t\r\n"`, ...) are
    /// used for every second input (properties that look at positions)
    #[serde(default)]
    pub lines: bool,
    /// 0 = default whitespace skipping; 1..4 = Layout rule templates (whitespace / + line
    /// comments / + nested block comments / non-empty variant). Honoured by the properties
    /// that say so in their rule; the others ignore it.
    #[serde(default)]
    pub layout_mode: u8,
}

pub fn layout_kind_of(mode: u8) -> Option<crate::spec::LayoutKind> {
    use crate::spec::LayoutKind;
    match mode {
        0 => None,
        1 => Some(LayoutKind::Ws),
        2 => Some(LayoutKind::WsLine),
        3 => Some(LayoutKind::WsLineBlock),
        4 => Some(LayoutKind::WsLineBlockPlus),
        _ => Some(LayoutKind::WsPair),
    }
}

pub fn gcase(
    p: gen::BnfParams,
    ninputs: std::ops::Range<usize>,
    tape_len: usize,
) -> BoxedStrategy<GCase> {
    (
        gen::g_bnf(p),
        gen::tapes(ninputs, tape_len),
        proptest::bool::ANY,
        prop_oneof![8 => Just(0u8), 1 => Just(1u8), 1 => Just(2u8), 1 => Just(3u8), 2 => Just(4u8), 2 => Just(5u8)],
    )
        .prop_map(|(spec, tapes, lines, layout_mode)| GCase { spec, tapes, lines, layout_mode })
        .boxed()
}

/// Compile; a compiler error value is returned as Err(Some(msg)); a compiler panic is a
/// discard here (it is C16's subject) and returned as Err(None) after counting.
pub fn compile_or_discard(text: &str, cfg: &Cfg, st: &mut Stats) -> Result<Rc<Dump>, Option<String>> {
    match compile(text, cfg) {
        Ok(d) => Ok(d),
        Err(CompileErr::Err(e)) => Err(Some(e)),
        Err(CompileErr::Panic(p)) => {
            st.discard(&format!("compiler-panic(C16):{}", crate::compile::norm_msg(&p.message)));
            let _ = panic_sig(&p);
            Err(None)
        }
    }
}

/// Canonical s-expression of a real tree: `(Rule#alt child ...)`, leaves `Term@start-end`.
pub fn canon_real(d: &Dump, n: &Node, with_pos: bool) -> String {
    match n {
        Node::Term { kind, span, .. } => {
            if with_pos {
                format!("{}@{}-{}", d.terminals[*kind].name, span.start.pos, span.end.pos)
            } else {
                d.terminals[*kind].name.clone()
            }
        }
        Node::NonTerm { prod, children, .. } => {
            let p = &d.productions[*prod];
            let mut s = format!("({}#{}", d.nonterminals[p.nonterminal].name, p.ntidx);
            for c in children {
                s.push(' ');
                s.push_str(&canon_real(d, c, with_pos));
            }
            s.push(')');
            s
        }
    }
}

pub fn is_empty_yield(n: &Node) -> bool {
    match n {
        Node::Term { .. } => false,
        Node::NonTerm { children, .. } => children.iter().all(is_empty_yield),
    }
}

/// Strip trailing empty-yield children bottom-up (licence of right-nulled reductions).
pub fn strip_real(n: &Node) -> Node {
    match n {
        Node::Term { .. } => n.clone(),
        Node::NonTerm { prod, span, children, layout } => {
            let mut ch: Vec<Node> = children.iter().map(strip_real).collect();
            while ch.last().map(is_empty_yield).unwrap_or(false) {
                ch.pop();
            }
            Node::NonTerm { prod: *prod, span: *span, children: ch, layout: layout.clone() }
        }
    }
}

pub const LR_STEPS: u64 = 30_000;
pub const GLR_STEPS: u64 = 1_000_000;

pub fn is_step_panic(p: &crate::compile::PanicInfo) -> bool {
    p.message.contains(crate::dynp::STEP_PANIC)
}

/// Outcome for a panic raised by the real parser. Exceeding the deterministic step budget
/// (non-termination) is C15's subject: other properties count it as a discard.
pub fn parse_panic(ctx: &str, p: &crate::compile::PanicInfo, st: &mut Stats) -> Option<Outcome> {
    if is_step_panic(p) {
        st.discard("step-budget-exceeded(C15)");
        None
    } else {
        Some(panic_outcome(ctx, p))
    }
}

pub fn panic_outcome(ctx: &str, p: &crate::compile::PanicInfo) -> Outcome {
    Outcome::fail(
        format!("{}|{}", ctx, panic_sig(p)),
        format!("panic at {}:{}: {}", p.file, p.line, p.message),
    )
}

pub fn install(d: &Rc<Dump>, cfg: &Cfg) -> Result<(), String> {
    dynp::install(d.clone(), cfg.eff_longest(), cfg.eff_order())
}

pub fn grammar_classes(b: &Bnf) -> (bool, bool) {
    (b.nullable().iter().any(|x| *x), b.is_recursive())
}

// ---------------------------------------------------------------------------------------
// span / position invariants (C13; also used by C07)

pub fn expected_line_col(input: &str, pos: usize) -> (usize, usize) {
    let before = &input.as_bytes()[..pos.min(input.len())];
    let line = 1 + before.iter().filter(|b| **b == b'\n').count();
    let col = match before.iter().rposition(|b| *b == b'\n') {
        Some(i) => pos - (i + 1),
        None => pos,
    };
    (line, col)
}

pub fn check_pos(input: &str, p: &crate::dynp::Pos, what: &str) -> Result<(), (String, String)> {
    if p.pos > input.len() {
        return Err(("pos-out-of-range".into(), format!("{what}: pos {} > len {}", p.pos, input.len())));
    }
    match p.line_col {
        None => Err(("line-col-missing".into(), format!("{what}: no line/column for a str input"))),
        Some((l, c)) => {
            let (el, ec) = expected_line_col(input, p.pos);
            if l != el {
                return Err(("line".into(), format!("{what}: pos {} line {} expected {}", p.pos, l, el)));
            }
            if c != ec {
                return Err(("column".into(), format!("{what}: pos {} column {} expected {}", p.pos, c, ec)));
            }
            Ok(())
        }
    }
}

/// All C13 clauses on one tree. Error = (clause, message).
pub fn span_invariants(input: &str, tree: &Node) -> Result<(), (String, String)> {
    // collect leaves in order for prev/next lookups
    let mut leaves = vec![];
    tree.leaves(&mut leaves);
    let leaf_spans: Vec<(usize, usize)> = leaves.iter().map(|l| (l.span().start.pos, l.span().end.pos)).collect();
    // leaves: slices, ordering
    let mut prev_end = 0usize;
    for l in &leaves {
        if let Node::Term { span, value, text, .. } = l {
            check_pos(input, &span.start, "token start")?;
            check_pos(input, &span.end, "token end")?;
            if span.end.pos < span.start.pos {
                return Err(("token-span-reversed".into(), format!("{span:?}")));
            }
            if span.start.pos < prev_end {
                return Err(("token-overlap".into(), format!("token at {} starts before previous end {}", span.start.pos, prev_end)));
            }
            prev_end = span.end.pos;
            match value {
                None => return Err(("token-value-not-in-buffer".into(), format!("{text:?}"))),
                Some((o, len)) => {
                    if *o != span.start.pos || *len != span.end.pos - span.start.pos {
                        return Err((
                            "token-value-slice".into(),
                            format!("value is input[{}..{}] but span is {}..{}", o, o + len, span.start.pos, span.end.pos),
                        ));
                    }
                }
            }
            if input.get(span.start.pos..span.end.pos) != Some(text.as_str()) {
                return Err(("token-text".into(), format!("{text:?} vs span {span:?}")));
            }
        }
    }
    // interior nodes
    fn walk(
        input: &str,
        n: &Node,
        leaf_spans: &[(usize, usize)],
        next_leaf: &mut usize,
    ) -> Result<(), (String, String)> {
        match n {
            Node::Term { .. } => {
                *next_leaf += 1;
                Ok(())
            }
            Node::NonTerm { span, children, .. } => {
                check_pos(input, &span.start, "nonterminal start")?;
                check_pos(input, &span.end, "nonterminal end")?;
                if children.is_empty() {
                    let lo = if *next_leaf == 0 { 0 } else { leaf_spans[*next_leaf - 1].1 };
                    let hi = if *next_leaf < leaf_spans.len() { leaf_spans[*next_leaf].0 } else { input.len() };
                    let place = if *next_leaf == 0 {
                        "first"
                    } else if *next_leaf >= leaf_spans.len() {
                        "last"
                    } else {
                        "middle"
                    };
                    if span.start.pos != span.end.pos {
                        return Err((format!("empty-not-zero-width|{place}"), format!("{span:?}")));
                    }
                    if span.start.pos < lo || span.start.pos > hi {
                        return Err((
                            format!("empty-misplaced|{place}"),
                            format!("empty node at {} but must lie in [{lo},{hi}]", span.start.pos),
                        ));
                    }
                    Ok(())
                } else {
                    for c in children {
                        walk(input, c, leaf_spans, next_leaf)?;
                    }
                    let f = children.first().unwrap().span();
                    let l = children.last().unwrap().span();
                    if span.start != f.start {
                        // structural class: the two offsets differ only by skipped whitespace
                        let (a, b) = (span.start.pos.min(f.start.pos), span.start.pos.max(f.start.pos));
                        let ws_gap = input
                            .get(a..b)
                            .map(|g| !g.is_empty() && g.chars().all(|c| c.is_whitespace()))
                            .unwrap_or(false);
                        let cls = if ws_gap { "nonterm-start|ws-gap" } else { "nonterm-start" };
                        return Err((cls.into(), format!("{:?} vs first child {:?}", span, f)));
                    }
                    if span.end != l.end {
                        return Err(("nonterm-end".into(), format!("{:?} vs last child {:?}", span, l)));
                    }
                    Ok(())
                }
            }
        }
    }
    let mut nl = 0;
    walk(input, tree, &leaf_spans, &mut nl)
}

/// Structural comparison of two (stripped) trees incl. spans. Returns the first difference.
pub fn tree_diff(d: &Dump, a: &Node, b: &Node) -> Option<(String, String)> {
    match (a, b) {
        (
            Node::Term { kind: k1, span: s1, text: t1, .. },
            Node::Term { kind: k2, span: s2, text: t2, .. },
        ) => {
            if k1 != k2 {
                return Some(("token-kind".into(), format!("{} vs {}", d.terminals[*k1].name, d.terminals[*k2].name)));
            }
            if t1 != t2 {
                return Some(("token-text".into(), format!("{t1:?} vs {t2:?}")));
            }
            if s1 != s2 {
                return Some(("token-span".into(), format!("{s1:?} vs {s2:?}")));
            }
            None
        }
        (
            Node::NonTerm { prod: p1, span: s1, children: c1, .. },
            Node::NonTerm { prod: p2, span: s2, children: c2, .. },
        ) => {
            if p1 != p2 {
                return Some(("production".into(), format!("{p1} vs {p2}")));
            }
            if c1.len() != c2.len() {
                return Some(("children-count".into(), format!("prod {p1}: {} vs {}", c1.len(), c2.len())));
            }
            for (x, y) in c1.iter().zip(c2.iter()) {
                if let Some(dif) = tree_diff(d, x, y) {
                    return Some(dif);
                }
            }
            if s1 != s2 {
                let cls = if c1.is_empty() { "empty-node-span" } else { "nonterm-span" };
                return Some((cls.into(), format!("prod {p1}: {s1:?} vs {s2:?}")));
            }
            None
        }
        _ => Some(("shape".into(), "terminal vs nonterminal".into())),
    }
}

pub fn has_empty_node(n: &Node) -> bool {
    match n {
        Node::Term { .. } => false,
        Node::NonTerm { children, .. } => children.is_empty() || children.iter().any(has_empty_node),
    }
}

/// First pair of differing interior-node spans of two trees of identical shape.
pub fn first_span_diff(a: &Node, b: &Node) -> Option<(crate::dynp::Span, crate::dynp::Span)> {
    match (a, b) {
        (Node::NonTerm { span: s1, children: c1, .. }, Node::NonTerm { span: s2, children: c2, .. }) => {
            for (x, y) in c1.iter().zip(c2.iter()) {
                if let Some(d) = first_span_diff(x, y) {
                    return Some(d);
                }
            }
            if s1 != s2 {
                Some((*s1, *s2))
            } else {
                None
            }
        }
        _ => None,
    }
}
