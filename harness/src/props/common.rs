//! Helpers shared by the engine-A properties.

use crate::compile::{compile, panic_sig, Cfg, CompileErr};
use crate::dynp::{self, Node};
use crate::gen::{self, InputTape};
use crate::runner::{Outcome, Stats};
use crate::spec::*;
use proptest::prelude::*;
use rustemo_compiler::verif::Dump;
use serde::{Deserialize, Serialize};
use std::rc::Rc;

#[derive(Clone, Debug, Serialize, Deserialize)]
pub struct GCase {
    pub spec: GrammarSpec,
    pub tapes: Vec<InputTape>,
}

pub fn gcase(
    p: gen::BnfParams,
    ninputs: std::ops::Range<usize>,
    tape_len: usize,
) -> BoxedStrategy<GCase> {
    (gen::g_bnf(p), gen::tapes(ninputs, tape_len))
        .prop_map(|(spec, tapes)| GCase { spec, tapes })
        .boxed()
}

/// Compile; a compiler error value is returned as Err(Some(msg)); a compiler panic is a
/// discard here (it is C16's subject) and returned as Err(None) after counting.
pub fn compile_or_discard(text: &str, cfg: &Cfg, st: &mut Stats) -> Result<Rc<Dump>, Option<String>> {
    match compile(text, cfg) {
        Ok(d) => Ok(d),
        Err(CompileErr::Err(e)) => Err(Some(e)),
        Err(CompileErr::Panic(p)) => {
            st.discard(&format!("compiler-panic(C16):{}", crate::compile::norm_msg(&p.message)));
            let _ = panic_sig(&p);
            Err(None)
        }
    }
}

/// Canonical s-expression of a real tree: `(Rule#alt child ...)`, leaves `Term@start-end`.
pub fn canon_real(d: &Dump, n: &Node, with_pos: bool) -> String {
    match n {
        Node::Term { kind, span, .. } => {
            if with_pos {
                format!("{}@{}-{}", d.terminals[*kind].name, span.start.pos, span.end.pos)
            } else {
                d.terminals[*kind].name.clone()
            }
        }
        Node::NonTerm { prod, children, .. } => {
            let p = &d.productions[*prod];
            let mut s = format!("({}#{}", d.nonterminals[p.nonterminal].name, p.ntidx);
            for c in children {
                s.push(' ');
                s.push_str(&canon_real(d, c, with_pos));
            }
            s.push(')');
            s
        }
    }
}

pub fn is_empty_yield(n: &Node) -> bool {
    match n {
        Node::Term { .. } => false,
        Node::NonTerm { children, .. } => children.iter().all(is_empty_yield),
    }
}

/// Strip trailing empty-yield children bottom-up (licence of right-nulled reductions).
pub fn strip_real(n: &Node) -> Node {
    match n {
        Node::Term { .. } => n.clone(),
        Node::NonTerm { prod, span, children, layout } => {
            let mut ch: Vec<Node> = children.iter().map(strip_real).collect();
            while ch.last().map(is_empty_yield).unwrap_or(false) {
                ch.pop();
            }
            Node::NonTerm { prod: *prod, span: *span, children: ch, layout: layout.clone() }
        }
    }
}

pub fn panic_outcome(ctx: &str, p: &crate::compile::PanicInfo) -> Outcome {
    Outcome::fail(
        format!("{}|{}", ctx, panic_sig(p)),
        format!("panic at {}:{}: {}", p.file, p.line, p.message),
    )
}

pub fn install(d: &Rc<Dump>, cfg: &Cfg) -> Result<(), String> {
    dynp::install(d.clone(), cfg.eff_longest(), cfg.eff_order())
}

pub fn grammar_classes(b: &Bnf) -> (bool, bool) {
    (b.nullable().iter().any(|x| *x), b.is_recursive())
}
