//! Multi-threaded proptest driver, evidence writer, replay and known-findings handling.

use crate::compile::{guarded, install_panic_hook, panic_sig};
use proptest::strategy::{BoxedStrategy, Strategy};
use proptest::test_runner::{Config, RngAlgorithm, TestCaseError, TestError, TestRng, TestRunner};
use serde::{de::DeserializeOwned, Deserialize, Serialize};
use serde_json::{json, Value};
use std::collections::hash_map::DefaultHasher;
use std::collections::{BTreeMap, HashSet};
use std::fmt::Debug;
use std::hash::{Hash, Hasher};
use std::path::{Path, PathBuf};
use std::sync::atomic::{AtomicBool, Ordering};
use std::sync::Arc;
use std::time::Instant;

#[derive(Clone, Copy, Debug, PartialEq, Eq)]
pub enum Tier {
    Quick,
    Thorough,
}
impl Tier {
    pub fn name(&self) -> &'static str {
        match self {
            Tier::Quick => "quick",
            Tier::Thorough => "thorough",
        }
    }
}

#[derive(Debug, Clone)]
pub enum Outcome {
    Pass,
    Fail { sig: String, msg: String },
}

impl Outcome {
    pub fn fail(sig: impl Into<String>, msg: impl Into<String>) -> Outcome {
        Outcome::Fail { sig: sig.into(), msg: msg.into() }
    }
}

#[derive(Default, Debug)]
pub struct Stats {
    pub evaluations: u64,
    pub sub_evaluations: u64,
    pub discards: BTreeMap<String, u64>,
    pub classes: BTreeMap<String, u64>,
    pub excluded: BTreeMap<String, u64>,
    pub known_hits: BTreeMap<String, u64>,
    pub nontrivial: HashSet<u64>,
    pub samples: Vec<Value>,
    pub frozen: bool,
    pub sampled_this_case: bool,
}

pub fn hash_str(s: &str) -> u64 {
    let mut h = DefaultHasher::new();
    s.hash(&mut h);
    h.finish()
}

impl Stats {
    pub fn class(&mut self, c: &str) {
        if !self.frozen {
            *self.classes.entry(c.to_string()).or_default() += 1;
        }
    }
    pub fn discard(&mut self, c: &str) {
        if !self.frozen {
            *self.discards.entry(c.to_string()).or_default() += 1;
        }
    }
    pub fn exclude(&mut self, c: &str) {
        if !self.frozen {
            *self.excluded.entry(c.to_string()).or_default() += 1;
        }
    }
    pub fn sub(&mut self) {
        if !self.frozen {
            self.sub_evaluations += 1;
        }
    }
    /// Record a non-trivial case identified by `key`; `sample` renders it when wanted.
    pub fn nontrivial(&mut self, key: &str, sample: impl FnOnce() -> Value) {
        if self.frozen {
            return;
        }
        if self.nontrivial.insert(hash_str(key)) && self.samples.len() < 4 && !self.sampled_this_case {
            self.sampled_this_case = true;
            self.samples.push(sample());
        }
    }
    fn merge(&mut self, o: Stats) {
        self.evaluations += o.evaluations;
        self.sub_evaluations += o.sub_evaluations;
        for (k, v) in o.discards {
            *self.discards.entry(k).or_default() += v;
        }
        for (k, v) in o.classes {
            *self.classes.entry(k).or_default() += v;
        }
        for (k, v) in o.excluded {
            *self.excluded.entry(k).or_default() += v;
        }
        for (k, v) in o.known_hits {
            *self.known_hits.entry(k).or_default() += v;
        }
        self.nontrivial.extend(o.nontrivial);
        for s in o.samples {
            if self.samples.len() < 6 {
                self.samples.push(s);
            }
        }
    }
}

pub trait Prop: Sync + Send {
    type Case: Debug + Clone + Serialize + DeserializeOwned + Send + 'static;
    fn id(&self) -> &'static str;
    fn strategy(&self, tier: Tier) -> BoxedStrategy<Self::Case>;
    /// total number of generated cases for the tier (split over the workers)
    fn cases(&self, tier: Tier) -> u32;
    fn check(&self, case: &Self::Case, st: &mut Stats) -> Outcome;
    fn rule(&self) -> String;
    fn assumptions(&self) -> Vec<String>;
    fn max_shrink_iters(&self) -> u32 {
        3000
    }
    /// Human readable rendering of a case for replay files.
    fn describe(&self, case: &Self::Case) -> Value;
    /// extra coverage keys (deterministic, measured)
    fn extra_coverage(&self, _st: &Stats) -> Value {
        json!({})
    }
    /// Number of worker threads (engine B properties use fewer).
    fn workers(&self) -> usize {
        16
    }
}

#[derive(Serialize, Deserialize, Debug, Clone)]
pub struct KnownFinding {
    pub property: String,
    pub signature: String,
    pub what: String,
    #[serde(default)]
    pub replay: Option<String>,
}

#[derive(Serialize, Deserialize, Debug, Clone)]
pub struct FixedFinding {
    pub property: String,
    pub commit: String,
    pub what: String,
    #[serde(default)]
    pub regress: Option<String>,
}

#[derive(Serialize, Deserialize, Debug, Clone, Default)]
pub struct KnownFile {
    #[serde(default)]
    pub findings: Vec<KnownFinding>,
    #[serde(default)]
    pub fixed: Vec<FixedFinding>,
}

pub fn verif_root() -> PathBuf {
    std::env::var("VERIF_ROOT").map(PathBuf::from).unwrap_or_else(|_| PathBuf::from("/verif"))
}

pub fn load_known() -> KnownFile {
    let p = verif_root().join("known_findings.json");
    match std::fs::read_to_string(&p) {
        Ok(s) => serde_json::from_str(&s).expect("known_findings.json must parse"),
        Err(_) => KnownFile::default(),
    }
}

#[derive(Serialize, Deserialize, Debug, Clone)]
pub struct ReplayFile {
    pub property: String,
    pub signature: String,
    pub message: String,
    pub seed: u64,
    pub tier: String,
    pub description: Value,
    pub case: Value,
}

pub struct RunResult {
    pub exit: i32,
    pub lines: Vec<String>,
}

fn worker_seed(seed: u64, worker: usize, id: &str) -> [u8; 32] {
    let mut out = [0u8; 32];
    for k in 0..4 {
        let mut h = DefaultHasher::new();
        (seed, worker as u64, id, k as u64, 0x5eed_u64).hash(&mut h);
        out[k * 8..k * 8 + 8].copy_from_slice(&h.finish().to_le_bytes());
    }
    out
}

struct WorkerOut<C> {
    stats: Stats,
    failure: Option<(String, String, C)>,
    aborted: Option<String>,
}

/// Run the check on one case with panic capture; known signatures are tolerated and counted
/// unless `strict`.
fn eval<P: Prop>(
    prop: &P,
    case: &P::Case,
    st: &mut Stats,
    known: &HashSet<String>,
    strict: bool,
) -> Outcome {
    st.sampled_this_case = false;
    let r = guarded(|| prop.check(case, st));
    let out = match r {
        Ok(o) => o,
        Err(p) => Outcome::Fail {
            sig: format!("harness-{}", panic_sig(&p)),
            msg: format!("panic during check at {}:{}: {}", p.file, p.line, p.message),
        },
    };
    match out {
        Outcome::Fail { sig, msg } => {
            if !strict && known.contains(&sig) {
                if !st.frozen {
                    *st.known_hits.entry(sig).or_default() += 1;
                }
                Outcome::Pass
            } else {
                Outcome::Fail { sig, msg }
            }
        }
        o => o,
    }
}

pub fn run_search<P: Prop + 'static>(prop: Arc<P>, tier: Tier, seed: u64) -> RunResult {
    install_panic_hook();
    let t0 = Instant::now();
    let id = prop.id();
    let known_file = load_known();
    let known: HashSet<String> = known_file
        .findings
        .iter()
        .filter(|f| f.property == id)
        .map(|f| f.signature.clone())
        .collect();
    let mut lines: Vec<String> = vec![];
    let mut exit = 0;

    // 1. replay tier: regressions of fixed defects (strict) and reproducers of known findings
    let root = verif_root();
    let mut replayed = 0u64;
    let mut known_confirmed: Vec<String> = vec![];
    for dir in ["regress", "replays"] {
        let d = root.join(dir);
        if let Ok(rd) = std::fs::read_dir(&d) {
            let mut files: Vec<PathBuf> = rd
                .filter_map(|e| e.ok().map(|e| e.path()))
                .filter(|p| {
                    p.file_name()
                        .and_then(|n| n.to_str())
                        .map(|n| n.starts_with(&format!("{id}-")) && n.ends_with(".json"))
                        .unwrap_or(false)
                })
                .collect();
            files.sort();
            for f in files {
                replayed += 1;
                match replay_one(&*prop, &f) {
                    Ok(Outcome::Pass) => {}
                    Ok(Outcome::Fail { sig, msg }) => {
                        if known.contains(&sig) {
                            if !known_confirmed.contains(&sig) {
                                known_confirmed.push(sig);
                            }
                        } else {
                            eprintln!("replay {} failed: {} :: {}", f.display(), sig, msg);
                            lines.push(format!("VIOLATION property={} replay={}", id, f.display()));
                            exit = 1;
                        }
                    }
                    Err(e) => {
                        eprintln!("cannot replay {}: {}", f.display(), e);
                        if dir == "regress" {
                            return RunResult { exit: 2, lines };
                        }
                        // stale files in replays/ (older case format) are skipped
                    }
                }
            }
        }
    }
    // reproducers of known findings
    for f in known_file.findings.iter().filter(|f| f.property == id) {
        if let Some(rp) = &f.replay {
            let path = root.join(rp);
            replayed += 1;
            match replay_one(&*prop, &path) {
                Ok(Outcome::Fail { sig, .. }) if sig == f.signature => {
                    if !known_confirmed.contains(&sig) {
                        known_confirmed.push(sig);
                    }
                }
                Ok(Outcome::Fail { sig, msg }) => {
                    eprintln!("known-finding reproducer {} fails differently: {} :: {}", rp, sig, msg);
                    lines.push(format!("VIOLATION property={} replay={}", id, path.display()));
                    exit = 1;
                }
                Ok(Outcome::Pass) => {
                    eprintln!("note: known finding {} no longer reproduces", f.signature);
                }
                Err(e) => {
                    eprintln!("cannot replay {}: {}", path.display(), e);
                    return RunResult { exit: 2, lines };
                }
            }
        }
    }

    // wall-clock watchdog: a time budget hit means "inconclusive" (exit 2), never a violation
    {
        let limit = std::env::var("VERIF_WALL_LIMIT_S").ok().and_then(|s| s.parse::<u64>().ok()).unwrap_or(match tier {
            Tier::Quick => 1500,
            Tier::Thorough => 6 * 3600,
        });
        let id = id.to_string();
        std::thread::spawn(move || {
            std::thread::sleep(std::time::Duration::from_secs(limit));
            eprintln!("inconclusive: {id} exceeded the wall-clock limit of {limit}s");
            std::process::exit(2);
        });
    }

    // 2. generated search
    let total_cases = prop.cases(tier);
    let nworkers = prop.workers().max(1);
    let per_worker = (total_cases as usize).div_ceil(nworkers) as u32;
    let stop = Arc::new(AtomicBool::new(false));
    let mut handles = vec![];
    for w in 0..nworkers {
        let prop = prop.clone();
        let known = known.clone();
        let stop = stop.clone();
        let h = std::thread::Builder::new()
            .name(format!("w{w}"))
            .stack_size(512 << 20)
            .spawn(move || -> WorkerOut<P::Case> {
                let cfg = Config {
                    cases: per_worker,
                    max_shrink_iters: prop.max_shrink_iters(),
                    failure_persistence: None,
                    max_global_rejects: 1_000_000,
                    max_local_rejects: 1_000_000,
                    ..Config::default()
                };
                let rng = TestRng::from_seed(RngAlgorithm::ChaCha, &worker_seed(seed, w, prop.id()));
                let mut runner = TestRunner::new_with_rng(cfg, rng);
                let strategy = prop.strategy(tier);
                let stats = std::cell::RefCell::new(Stats::default());
                let first_sig: std::cell::RefCell<Option<String>> = std::cell::RefCell::new(None);
                let res = runner.run(&strategy, |case| {
                    if stop.load(Ordering::Relaxed) && first_sig.borrow().is_none() {
                        return Ok(());
                    }
                    let mut st = stats.borrow_mut();
                    if first_sig.borrow().is_none() {
                        st.evaluations += 1;
                    }
                    let o = eval(&*prop, &case, &mut st, &known, false);
                    match o {
                        Outcome::Pass => Ok(()),
                        Outcome::Fail { sig, msg } => {
                            let mut fs = first_sig.borrow_mut();
                            match &*fs {
                                None => {
                                    *fs = Some(sig.clone());
                                    st.frozen = true;
                                    stop.store(true, Ordering::Relaxed);
                                    Err(TestCaseError::fail(format!("{sig} :: {msg}")))
                                }
                                Some(s) if *s == sig => {
                                    Err(TestCaseError::fail(format!("{sig} :: {msg}")))
                                }
                                // while shrinking keep the original signature
                                Some(_) => Ok(()),
                            }
                        }
                    }
                });
                let mut out = WorkerOut { stats: Stats::default(), failure: None, aborted: None };
                match res {
                    Ok(()) => {}
                    Err(TestError::Fail(reason, case)) => {
                        let r = reason.message().to_string();
                        let (sig, msg) = match r.split_once(" :: ") {
                            Some((a, b)) => (a.to_string(), b.to_string()),
                            None => (r.clone(), r),
                        };
                        out.failure = Some((sig, msg, case));
                    }
                    Err(TestError::Abort(reason)) => {
                        out.aborted = Some(reason.message().to_string());
                    }
                }
                out.stats = stats.into_inner();
                out
            })
            .expect("spawn worker");
        handles.push(h);
    }
    let mut stats = Stats::default();
    let mut failures: Vec<(String, String, P::Case)> = vec![];
    for h in handles {
        match h.join() {
            Ok(o) => {
                stats.merge(o.stats);
                if let Some(f) = o.failure {
                    failures.push(f);
                }
                if let Some(a) = o.aborted {
                    eprintln!("worker aborted: {a}");
                    return RunResult { exit: 2, lines };
                }
            }
            Err(_) => {
                eprintln!("worker thread died");
                return RunResult { exit: 2, lines };
            }
        }
    }

    // 3. violations -> replay files
    let mut seen_sigs: Vec<String> = vec![];
    for (sig, msg, case) in &failures {
        if seen_sigs.contains(sig) {
            continue;
        }
        seen_sigs.push(sig.clone());
        // re-evaluate the minimal case to get its final message
        let mut tmp = Stats { frozen: true, ..Stats::default() };
        let (fsig, fmsg) = match eval(&*prop, case, &mut tmp, &known, false) {
            Outcome::Fail { sig, msg } => (sig, msg),
            Outcome::Pass => (sig.clone(), msg.clone()),
        };
        let rf = ReplayFile {
            property: id.to_string(),
            signature: fsig.clone(),
            message: fmsg.clone(),
            seed,
            tier: tier.name().into(),
            description: prop.describe(case),
            case: serde_json::to_value(case).unwrap(),
        };
        let dir = root.join("replays");
        let _ = std::fs::create_dir_all(&dir);
        let path = dir.join(format!("{}-{:016x}.json", id, hash_str(&format!("{fsig}{}", rf.case))));
        std::fs::write(&path, serde_json::to_string_pretty(&rf).unwrap()).expect("write replay");
        eprintln!("VIOLATION {} sig={} msg={}", id, fsig, fmsg);
        lines.push(format!("VIOLATION property={} replay={}", id, path.display()));
        exit = 1;
    }

    // 4. known findings
    let mut known_lines = vec![];
    for f in known_file.findings.iter().filter(|f| f.property == id) {
        let hits = stats.known_hits.get(&f.signature).copied().unwrap_or(0);
        if known_confirmed.contains(&f.signature) || hits > 0 {
            known_lines.push(format!("KNOWN-FINDING: property={} {}", id, f.what));
        }
    }
    lines.extend(known_lines.iter().cloned());

    // 5. evidence
    let wall = t0.elapsed().as_secs_f64();
    let mut coverage = json!({
        "evaluations": stats.evaluations,
        "sub_evaluations": stats.sub_evaluations,
        "distinct_nontrivial": stats.nontrivial.len(),
        "rule": prop.rule(),
        "samples": stats.samples,
        "classes": stats.classes,
        "discards": stats.discards,
        "excluded_by_construction": stats.excluded,
        "known_finding_hits": stats.known_hits,
        "known_findings_confirmed_by_replay": known_confirmed,
        "replay_files_run": replayed,
        "workers": nworkers,
        "cases_requested": total_cases,
        "exhaustive": false,
    });
    if let (Value::Object(c), Value::Object(e)) = (&mut coverage, prop.extra_coverage(&stats)) {
        for (k, v) in e {
            c.insert(k, v);
        }
    }
    let ev = json!({
        "property_id": id,
        "tier": tier.name(),
        "seed": seed,
        "level": "exploration",
        "coverage": coverage,
        "assumptions": prop.assumptions(),
        "wall_s": (wall * 100.0).round() / 100.0,
        "violations": failures.len(),
    });
    let evdir = root.join("evidence");
    let _ = std::fs::create_dir_all(&evdir);
    std::fs::write(evdir.join(format!("{id}.json")), serde_json::to_string_pretty(&ev).unwrap())
        .expect("write evidence");
    RunResult { exit, lines }
}

pub fn replay_one<P: Prop>(prop: &P, path: &Path) -> Result<Outcome, String> {
    let s = std::fs::read_to_string(path).map_err(|e| e.to_string())?;
    let rf: ReplayFile = serde_json::from_str(&s).map_err(|e| e.to_string())?;
    if rf.property != prop.id() {
        return Err(format!("replay file is for {}", rf.property));
    }
    let case: P::Case = serde_json::from_value(rf.case).map_err(|e| e.to_string())?;
    let mut st = Stats { frozen: true, ..Stats::default() };
    let known = HashSet::new();
    Ok(eval(prop, &case, &mut st, &known, true))
}

pub fn run_replay<P: Prop>(prop: &P, path: &Path) -> RunResult {
    install_panic_hook();
    match replay_one(prop, path) {
        Ok(Outcome::Pass) => RunResult { exit: 0, lines: vec![] },
        Ok(Outcome::Fail { sig, msg }) => {
            eprintln!("replay failed: {sig} :: {msg}");
            let known = load_known();
            if let Some(k) = known.findings.iter().find(|k| k.property == prop.id() && k.signature == sig) {
                RunResult {
                    exit: 0,
                    lines: vec![format!("KNOWN-FINDING: property={} {}", prop.id(), k.what)],
                }
            } else {
                RunResult {
                    exit: 1,
                    lines: vec![format!("VIOLATION property={} replay={}", prop.id(), path.display())],
                }
            }
        }
        Err(e) => {
            eprintln!("cannot replay: {e}");
            RunResult { exit: 2, lines: vec![] }
        }
    }
}

/// Small helper used by several properties: generate one value from a strategy outside a
/// property run (used by engines that batch cases).
pub fn sample_one<S: Strategy>(s: &S, runner: &mut TestRunner) -> S::Value {
    use proptest::strategy::ValueTree;
    s.new_tree(runner).expect("strategy").current()
}

// ---------------------------------------------------------------------------------------
// batch engines (engine B): the property code produces failures itself; this turns them into
// replay files / KNOWN-FINDING lines / evidence exactly like `run_search`.

pub struct BatchFailure {
    pub sig: String,
    pub msg: String,
    pub case: Value,
    pub description: Value,
}

#[allow(clippy::too_many_arguments)]
pub fn report_batch(
    id: &str,
    tier: Tier,
    seed: u64,
    mut stats: Stats,
    failures: Vec<BatchFailure>,
    rule: String,
    assumptions: Vec<String>,
    extra: Value,
    t0: Instant,
    mut lines: Vec<String>,
    mut exit: i32,
) -> RunResult {
    let known_file = load_known();
    let root = verif_root();
    let mut nviol = 0;
    let mut seen: Vec<String> = vec![];
    for f in &failures {
        if let Some(_k) = known_file.findings.iter().find(|k| k.property == id && k.signature == f.sig) {
            *stats.known_hits.entry(f.sig.clone()).or_default() += 1;
            continue;
        }
        if seen.contains(&f.sig) {
            continue;
        }
        seen.push(f.sig.clone());
        nviol += 1;
        let rf = ReplayFile {
            property: id.to_string(),
            signature: f.sig.clone(),
            message: f.msg.clone(),
            seed,
            tier: tier.name().into(),
            description: f.description.clone(),
            case: f.case.clone(),
        };
        let dir = root.join("replays");
        let _ = std::fs::create_dir_all(&dir);
        let path = dir.join(format!("{}-{:016x}.json", id, hash_str(&format!("{}{}", f.sig, rf.case))));
        std::fs::write(&path, serde_json::to_string_pretty(&rf).unwrap()).expect("write replay");
        eprintln!("VIOLATION {} sig={} msg={}", id, f.sig, f.msg);
        lines.push(format!("VIOLATION property={} replay={}", id, path.display()));
        exit = 1;
    }
    for k in known_file.findings.iter().filter(|k| k.property == id) {
        if stats.known_hits.get(&k.signature).copied().unwrap_or(0) > 0 {
            lines.push(format!("KNOWN-FINDING: property={} {}", id, k.what));
        }
    }
    let wall = t0.elapsed().as_secs_f64();
    let mut coverage = json!({
        "evaluations": stats.evaluations,
        "sub_evaluations": stats.sub_evaluations,
        "distinct_nontrivial": stats.nontrivial.len(),
        "rule": rule,
        "samples": stats.samples,
        "classes": stats.classes,
        "discards": stats.discards,
        "excluded_by_construction": stats.excluded,
        "known_finding_hits": stats.known_hits,
        "exhaustive": false,
    });
    if let (Value::Object(c), Value::Object(e)) = (&mut coverage, extra) {
        for (k, v) in e {
            c.insert(k, v);
        }
    }
    let ev = json!({
        "property_id": id,
        "tier": tier.name(),
        "seed": seed,
        "level": "exploration",
        "coverage": coverage,
        "assumptions": assumptions,
        "wall_s": (wall * 100.0).round() / 100.0,
        "violations": nviol,
    });
    let evdir = root.join("evidence");
    let _ = std::fs::create_dir_all(&evdir);
    std::fs::write(evdir.join(format!("{id}.json")), serde_json::to_string_pretty(&ev).unwrap()).expect("write evidence");
    RunResult { exit, lines }
}

/// deterministic proptest runner for batch generation
pub fn batch_runner(seed: u64, id: &str, batch: usize) -> TestRunner {
    let cfg = Config { failure_persistence: None, ..Config::default() };
    TestRunner::new_with_rng(cfg, TestRng::from_seed(RngAlgorithm::ChaCha, &worker_seed(seed, batch, id)))
}

/// A second leg of a property that has already been run by `run_search` (which wrote the
/// evidence file): failures become replay files / VIOLATION lines exactly as in the first leg
/// (known findings are honoured), and `coverage[key]` of the evidence file is filled in.
pub fn append_leg(id: &str, tier: Tier, seed: u64, failures: Vec<BatchFailure>, key: &str, coverage: Value) -> RunResult {
    let known_file = load_known();
    let root = verif_root();
    let mut lines = vec![];
    let mut exit = 0;
    let mut seen: Vec<String> = vec![];
    let mut known_hits: BTreeMap<String, u64> = BTreeMap::new();
    for f in &failures {
        if let Some(k) = known_file.findings.iter().find(|k| k.property == id && k.signature == f.sig) {
            if known_hits.insert(f.sig.clone(), 1).is_none() {
                lines.push(format!("KNOWN-FINDING: property={} {}", id, k.what));
            }
            continue;
        }
        if seen.contains(&f.sig) {
            continue;
        }
        seen.push(f.sig.clone());
        let rf = ReplayFile {
            property: id.to_string(),
            signature: f.sig.clone(),
            message: f.msg.clone(),
            seed,
            tier: tier.name().into(),
            description: f.description.clone(),
            case: f.case.clone(),
        };
        let dir = root.join("replays");
        let _ = std::fs::create_dir_all(&dir);
        let path = dir.join(format!("{}-{:016x}.json", id, hash_str(&format!("{}{}", f.sig, rf.case))));
        std::fs::write(&path, serde_json::to_string_pretty(&rf).unwrap()).expect("write replay");
        eprintln!("VIOLATION {} sig={} msg={}", id, f.sig, f.msg);
        lines.push(format!("VIOLATION property={} replay={}", id, path.display()));
        exit = 1;
    }
    let evp = root.join("evidence").join(format!("{id}.json"));
    if let Some(mut ev) = std::fs::read_to_string(&evp).ok().and_then(|s| serde_json::from_str::<Value>(&s).ok()) {
        if let Some(c) = ev.get_mut("coverage").and_then(|c| c.as_object_mut()) {
            c.insert(key.to_string(), coverage);
        }
        if exit == 1 {
            let n = ev.get("violations").and_then(|v| v.as_u64()).unwrap_or(0) + seen.len() as u64;
            ev["violations"] = json!(n);
        }
        let _ = std::fs::write(&evp, serde_json::to_string_pretty(&ev).unwrap());
    }
    RunResult { exit, lines }
}
