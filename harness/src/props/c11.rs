//! C11 — generated parser and actions compile for every accepted grammar and setting.
//! Engine B; rustc (cargo check) is the oracle.

use crate::engine_b::{BConfig, GenResult, Scratch};
use crate::gen;
use crate::runner::{batch_runner, report_batch, BatchFailure, RunResult, Stats, Tier};
use proptest::strategy::{Strategy, ValueTree};
use serde::{Deserialize, Serialize};
use serde_json::json;
use std::path::Path;
use std::time::Instant;

#[derive(Clone, Debug, Serialize, Deserialize)]
pub struct Case {
    pub tape: Vec<u16>,
    pub cfg: BConfig,
    /// the tape is read by `gen::build_rec` (recursive type shapes) instead of `gen::build_ast`
    #[serde(default)]
    pub rec: bool,
    /// the tape is read by `gen::build_kw` (no content terminal at all)
    #[serde(default)]
    pub kw: bool,
    /// all rule and terminal names lower-cased (the style of examples/clang)
    #[serde(default)]
    pub lower: bool,
    /// the grammar gets the documented Layout rule (whitespace, line and nested block comments)
    #[serde(default)]
    pub layout: bool,
}

pub fn spec_of(c: &Case) -> crate::spec::GrammarSpec {
    if c.layout {
        let mut s = gen::build_ast(&c.tape);
        s.layout = Some(crate::spec::LayoutKind::WsLineBlock);
        return s;
    }
    if c.lower {
        return gen::build_ast(&c.tape).lowercased();
    }
    if c.kw {
        gen::build_kw(&c.tape)
    } else if c.rec {
        gen::build_rec(&c.tape)
    } else {
        gen::build_ast(&c.tape)
    }
}

/// Greedy pairwise covering array over the six configuration parameters (deterministic).
pub fn covering_array() -> Vec<BConfig> {
    let mut all = vec![];
    for glr in [false, true] {
        for builder in 0..3u8 {
            for arrays in [false, true] {
                for loc_info in [false, true] {
                    for fancy in [false, true] {
                        for custom_lexer in [false, true] {
                            all.push(BConfig { glr, builder, arrays, loc_info, fancy, custom_lexer, rn_table: false , no_skip_ws: false });
                        }
                    }
                }
            }
        }
    }
    let params = |c: &BConfig| -> [u8; 6] { [c.glr as u8, c.builder, c.arrays as u8, c.loc_info as u8, c.fancy as u8, c.custom_lexer as u8] };
    let mut uncovered: std::collections::BTreeSet<(usize, u8, usize, u8)> = std::collections::BTreeSet::new();
    for c in &all {
        let p = params(c);
        for i in 0..6 {
            for j in (i + 1)..6 {
                uncovered.insert((i, p[i], j, p[j]));
            }
        }
    }
    let mut out = vec![];
    while !uncovered.is_empty() {
        let best = all
            .iter()
            .max_by_key(|c| {
                let p = params(c);
                let mut n = 0;
                for i in 0..6 {
                    for j in (i + 1)..6 {
                        if uncovered.contains(&(i, p[i], j, p[j])) {
                            n += 1;
                        }
                    }
                }
                n
            })
            .unwrap()
            .clone();
        let p = params(&best);
        for i in 0..6 {
            for j in (i + 1)..6 {
                uncovered.remove(&(i, p[i], j, p[j]));
            }
        }
        out.push(best);
    }
    out
}

fn shape_classes(spec: &crate::spec::GrammarSpec) -> Vec<&'static str> {
    use crate::spec::Sym;
    let mut v = vec![];
    if spec.rules.iter().any(|r| r.annotation.as_deref() == Some("vec")) {
        v.push("vec");
    }
    if spec.rules.iter().enumerate().any(|(i, r)| r.alts.iter().any(|a| a.syms.iter().any(|u| u.sym == Sym::N(i)))) {
        v.push("recursive");
    }
    if spec.rules.iter().any(|r| r.alts.iter().any(|a| a.syms.is_empty())) {
        v.push("optional");
    }
    if spec.has_sugar() {
        v.push("sugar");
    }
    let reach = crate::oracle::desugar::desugar(spec).bnf.reachable();
    if !reach.iter().take(spec.rules.len()).all(|x| *x) {
        v.push("unreachable-rule");
    }
    v
}

/// structural class of a diagnostic, used to key known findings narrowly
fn refine(d: &crate::engine_b::Diag, spec: &crate::spec::GrammarSpec, cfg: &BConfig) -> &'static str {
    let name = d.message.split('`').nth(1).unwrap_or("").to_string();
    let kinds_in_two_rules = {
        let mut seen: Vec<(String, usize)> = vec![];
        let mut dup = false;
        for (ri, r) in spec.rules.iter().enumerate() {
            for a in &r.alts {
                if let Some(k) = &a.meta.kind {
                    if seen.iter().any(|(n, r2)| n == k && *r2 != ri) && (*k == name || name == format!("{k}Base")) {
                        dup = true;
                    }
                    seen.push((k.clone(), ri));
                }
            }
        }
        dup
    };
    if (d.code == "E0428") && kinds_in_two_rules {
        return "|production-kind-used-in-two-rules";
    }
    // a rule spelled like a generated choice name (`c1`, `c2`, ... in a lower-case grammar): the
    // generator makes choice names unique before case conversion, so the action of the
    // alternative that refers to rule `c1` and the action of the first unnamed alternative are
    // both `<rule>_c1`
    if d.code == "E0428" {
        if let Some(suffix) = name.rsplit('_').next() {
            let generated_like = suffix.len() >= 2 && suffix.starts_with('c') && suffix[1..].chars().all(|c| c.is_ascii_digit());
            if generated_like && spec.rules.iter().any(|r| r.name == suffix) {
                return "|rule-named-like-generated-choice-name";
            }
        }
    }
    if d.code == "E0255" && name == "C" && cfg.loc_info && spec.rules.iter().any(|r| r.name == "C") {
        return "|rule-named-C-with-loc-info";
    }
    if d.code == "E0308" && cfg.glr && d.text.contains("(context") && d.text.contains("None") && d.label.contains("found `Option<") {
        return "|right-nulled-arm-passes-None";
    }
    ""
}

fn judge(m: &str, diags: &[crate::engine_b::Diag], case: &Case, text: &str) -> BatchFailure {
    let d = &diags[0];
    let file = Path::new(&d.file).file_name().map(|f| f.to_string_lossy().to_string()).unwrap_or_default();
    let spec = spec_of(case);
    let sig = format!(
        "{}|{}|{}{}",
        if d.code.is_empty() { "error" } else { &d.code },
        file,
        crate::compile::norm_msg(&d.message),
        refine(d, &spec, &case.cfg)
    );
    let all: Vec<String> = diags.iter().take(6).map(|x| format!("{} {}:{} {} | {}", x.code, x.file, x.line, x.message, x.text)).collect();
    BatchFailure {
        sig,
        msg: format!("module {m}, configuration {}\ngrammar:\n{text}\nrustc:\n{}", case.cfg.name(), all.join("\n")),
        case: serde_json::to_value(case).unwrap(),
        description: json!({"grammar": text, "configuration": case.cfg.name()}),
    }
}

pub fn run(tier: Tier, seed: u64, replay: Option<&Path>) -> RunResult {
    crate::compile::install_panic_hook();
    let t0 = Instant::now();
    let mut st = Stats::default();
    let mut failures: Vec<BatchFailure> = vec![];
    let cov = covering_array();
    let (batches, per_batch) = match tier {
        Tier::Quick => (1, 20),
        Tier::Thorough => (12, 24),
    };
    let mut cases: Vec<Vec<Case>> = vec![];
    if let Some(p) = replay {
        let rf: crate::runner::ReplayFile = match std::fs::read_to_string(p).ok().and_then(|s| serde_json::from_str(&s).ok()) {
            Some(r) => r,
            None => return RunResult { exit: 2, lines: vec![] },
        };
        match serde_json::from_value::<Case>(rf.case) {
            Ok(c) => cases.push(vec![c]),
            Err(_) => return RunResult { exit: 2, lines: vec![] },
        }
    } else {
        // regress files and the saved inputs of the known findings first (their own batch): a
        // regress case must compile; a known case reproduces its listed signature (KNOWN-FINDING
        // line) or, once repaired upstream, simply compiles
        let mut reg: Vec<Case> = vec![];
        for sub in ["regress", "known"] {
            let rd = match std::fs::read_dir(crate::runner::verif_root().join(sub)) {
                Ok(rd) => rd,
                Err(_) => continue,
            };
            {
            let mut files: Vec<_> = rd.flatten().map(|e| e.path()).filter(|p| p.file_name().map(|n| n.to_string_lossy().starts_with("C11-")).unwrap_or(false)).collect();
            files.sort();
            for f in files {
                if let Some(rf) = std::fs::read_to_string(&f).ok().and_then(|s| serde_json::from_str::<crate::runner::ReplayFile>(&s).ok()) {
                    if let Ok(c) = serde_json::from_value::<Case>(rf.case) {
                        reg.push(c);
                    }
                }
            }
            }
        }
        for b in 0..batches {
            let mut runner = batch_runner(seed, "C11", b);
            let mut v = if b == 0 { reg.clone() } else { vec![] };
            for g in 0..per_batch {
                let tape = gen::g_ast().new_tree(&mut runner).unwrap().current();
                for k in 0..3 {
                    let cfg = cov[(g * 3 + k + b) % cov.len()];
                    v.push(Case { tape: tape.clone(), cfg, rec: false, kw: false, lower: g % 5 == 4 && k == 0, layout: g % 5 != 4 && (g + k) % 3 == 1 });
                }
            }
            // recursive type shapes (vector / optional / sugar edges that point back)
            for g in 0..per_batch + per_batch / 2 {
                let tape = gen::g_rec().new_tree(&mut runner).unwrap().current();
                for k in 0..2 {
                    let mut cfg = cov[(g * 2 + k + b) % cov.len()];
                    cfg.builder = 0; // the types live in the actions file of the default builder
                    v.push(Case { tape: tape.clone(), cfg, rec: true, kw: false, lower: false, layout: false });
                }
            }
            // grammars without any content terminal (keywords only), default builder
            for g in 0..per_batch / 4 {
                let tape = gen::g_rec().new_tree(&mut runner).unwrap().current();
                for k in 0..2 {
                    let mut cfg = cov[(g * 2 + k + b + 5) % cov.len()];
                    cfg.builder = 0;
                    cfg.loc_info = k == 0;
                    v.push(Case { tape: tape.clone(), cfg, rec: false, kw: true, lower: false, layout: false });
                }
            }
            cases.push(v);
        }
    }
    let mut lines = vec![];
    let mut exit = 0;
    for (b, batch) in cases.iter().enumerate() {
        let mut sc = Scratch::new(&format!("c11-{b}"));
        let mut mods: Vec<(String, &Case, String)> = vec![];
        for (i, c) in batch.iter().enumerate() {
            st.evaluations += 1;
            let spec = spec_of(c);
            let text = spec.render();
            let m = format!("m{i}");
            match sc.generate(&m, &text, &c.cfg) {
                GenResult::Ok => {
                    sc.write_mod(&m, &c.cfg, None);
                    mods.push((m, c, text));
                }
                GenResult::Rejected(e) => st.discard(&format!("compiler-rejects:{}", crate::props::c16::classify_err(&e))),
                GenResult::Panic(sig, _) => st.discard(&format!("generator-panic(C16):{}", sig.chars().take(60).collect::<String>())),
            }
        }
        let diags = match sc.check() {
            Ok(d) => d,
            Err(e) => {
                eprintln!("engine B infrastructure: {e}");
                lines.push(format!("inconclusive: {e}"));
                exit = 2;
                break;
            }
        };
        for (m, c, text) in &mods {
            st.sub();
            st.class(&format!("config-{}", c.cfg.name()));
            match diags.get(m) {
                Some(d) if !d.is_empty() => failures.push(judge(m, d, c, text)),
                _ => {
                    let spec = spec_of(c);
                    let cls = shape_classes(&spec);
                    for x in &cls {
                        st.class(&format!("compiled-shape-{x}"));
                    }
                    if cls.len() >= 2 || c.cfg.glr {
                        st.nontrivial(&format!("{text}\n{}", c.cfg.name()), || {
                            json!({"grammar": text, "configuration": c.cfg.name(), "shapes": cls, "rustc": "no errors"})
                        });
                    }
                }
            }
        }
        sc.cleanup();
    }
    if exit == 2 {
        return RunResult { exit, lines };
    }
    report_batch(
        "C11",
        tier,
        seed,
        st,
        failures,
        "case = generated AST-shape-rich grammar (enum / struct / ref / @vec in both recursion directions / ?*+ sugar with separators / optional enums and structs / recursive and mutually recursive rules / unreachable rules and terminals / production kinds / named and ?= assignments / colliding names) x 3 configurations from a pairwise covering array over {LR,GLR} x {default,generic,custom builder} x {arrays,functions} x builder_loc_info x fancy_regex x {default,custom lexer}; every case accepted by the real Settings::process_grammar is written into one scratch crate (with the one-line g_lexer.rs a custom-lexer user must supply) and `cargo check --message-format=json` must report no error in the files of the case; diagnostics are attributed to cases by file path. non-trivial = accepted case that combines >= 2 of {vec, recursive, optional, sugar, unreachable rule} or is compiled for GLR".into(),
        vec![
            "rustc / cargo check is the oracle; warnings are ignored".into(),
            "the scratch crate path-depends on /repo/rustemo; the cargo target dir under /verif/target/scratch-b is reused between runs".into(),
        ],
        json!({"covering_array_rows": cov.len()}),
        t0,
        lines,
        exit,
    )
}
