pub mod earley;
pub mod lr1;
pub mod trees;
pub mod prec;
pub mod lexmodel;
pub mod layoutmodel;
pub mod desugar;
